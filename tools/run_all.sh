#!/bin/bash
# tools/run_all.sh [quick|thorough]: runs every registered check on /repo as it is and prints one line each.
TIER=${1:-quick}
cd /verif
for id in $(python3 -c "import json; print(' '.join(c['property_id'] for c in json.load(open('MANIFEST.json'))['checks']))"); do
  t0=$(date +%s)
  ./bin/check $id --tier $TIER > /tmp/runall-$id.log 2>&1
  rc=$?
  echo "$id rc=$rc $(( $(date +%s) - t0 ))s $(grep -c '^VIOLATION' /tmp/runall-$id.log) violations; $(grep 'RESULT' /tmp/runall-$id.log | tail -1 | cut -c1-120)"
done
