#!/bin/bash
# tools/seed_confirm.sh <seed-out-dir> <seed-id> <property>
# Confirms a seeded change in a scratch worktree of /repo (outside /repo and /verif):
#   builds, existing suite passes with the change, demo fails with it and passes without it;
# then stores it under /verif/seeded/<seed-id>/ (patch.diff, demo/, meta.json).
set -u
SRC="$1"; ID="$2"; PROP="$3"
export GOFLAGS=-mod=mod GOPROXY=off GOSUMDB=off GOTOOLCHAIN=local
WT=/tmp/confirm-$ID
rm -rf "$WT"; git -C /repo worktree prune
git -C /repo worktree add --detach "$WT" HEAD >/dev/null 2>&1 || { echo "cannot create worktree"; exit 2; }
cleanup() { git -C /repo worktree remove --force "$WT" >/dev/null 2>&1; rm -rf "$WT"; }
trap cleanup EXIT
cd "$WT"
git apply --check "$SRC/patch.diff" || { echo "RESULT $ID: patch does not apply to current /repo HEAD"; exit 1; }
git apply "$SRC/patch.diff"
go build -ldflags=-checklinkname=0 ./... > /tmp/confirm-$ID.build.log 2>&1 || { echo "RESULT $ID: build fails"; tail -5 /tmp/confirm-$ID.build.log; exit 1; }
go vet ./... >/dev/null 2>&1
timeout 1500 go test -ldflags=-checklinkname=0 -vet=off -count=1 -timeout 25m ./... > /tmp/confirm-$ID.suite.log 2>&1
SUITE=$?
if [ $SUITE -ne 0 ]; then
  # tests that listen on fixed ports (common/utls) collide when several confirmations run at once: re-run the failed packages alone
  FAILED=$(grep -E "^FAIL\s+\S+" /tmp/confirm-$ID.suite.log | awk '{print $2}' | sort -u | tr '\n' ' ')
  if [ -n "$FAILED" ]; then sleep $((RANDOM % 20)); timeout 900 go test -ldflags=-checklinkname=0 -vet=off -count=1 -p 1 $FAILED > /tmp/confirm-$ID.suite2.log 2>&1; SUITE=$?; fi
fi
if [ $SUITE -ne 0 ]; then echo "RESULT $ID: existing suite FAILS with the change"; grep -E "^(FAIL|---)" /tmp/confirm-$ID.suite.log | head; exit 1; fi
DEMOFILE=$(ls "$SRC"/demo/*.go | head -1)
WHERE=$(grep -v '^\s*$' "$SRC/demo/where.txt" | head -1 | awk '{print $NF}')
mkdir -p "$(dirname "$WHERE")"; cp "$DEMOFILE" "$WHERE"
RUN=$(grep -o 'go test.*' "$SRC/demo/run.txt" | head -1)
[ -z "$RUN" ] && RUN=$(grep -o 'go run.*' "$SRC/demo/run.txt" | head -1)
timeout 600 bash -c "$RUN" > /tmp/confirm-$ID.demo_with.log 2>&1; WITH=$?
git apply -R "$SRC/patch.diff"
timeout 600 bash -c "$RUN" > /tmp/confirm-$ID.demo_without.log 2>&1; WITHOUT=$?
echo "RESULT $ID: suite=pass demo_with_change_rc=$WITH demo_without_change_rc=$WITHOUT"
if [ $WITH -ne 0 ] && [ $WITHOUT -eq 0 ]; then
  D=/verif/seeded/$ID; mkdir -p "$D/demo"
  cp "$SRC/patch.diff" "$D/patch.diff"; cp "$DEMOFILE" "$D/demo/"; echo "$WHERE" > "$D/demo/where.txt"; echo "$RUN" > "$D/demo/run.txt"
  [ -f "$SRC/notes.md" ] && cp "$SRC/notes.md" "$D/notes.md"
  python3 - "$D" "$ID" "$PROP" "$RUN" "$(git -C /repo rev-parse --short HEAD)" <<'PY'
import json,sys,os
d,i,p,run,head=sys.argv[1:6]
notes=open(os.path.join(d,'notes.md')).read() if os.path.exists(os.path.join(d,'notes.md')) else ''
meta={"seed_id":i,"property":p,"confirmed_against_repo_commit":head,
 "needs_to_manifest":"see notes.md (written by the independent sub-agent that produced the change)",
 "what_was_run":["git apply patch.diff in a scratch worktree of /repo","go build -ldflags=-checklinkname=0 ./...  (ok)",
   "go test -ldflags=-checklinkname=0 -vet=off -count=1 ./...  (existing suite: pass)", run+"  (with the change: FAIL)", run+"  (without the change: PASS)"],
 "detected_by":"(filled in after running the checks, see DESIGN.md §9)"}
json.dump(meta,open(os.path.join(d,'meta.json'),'w'),indent=1)
PY
  echo "KEPT $ID"
else
  echo "REJECTED $ID (demo does not discriminate)"; tail -5 /tmp/confirm-$ID.demo_with.log; tail -5 /tmp/confirm-$ID.demo_without.log
fi
