#!/bin/bash
# tools/seed_round.sh <round-dir> <frozen-verif-copy> <property> <letterA> <letterB>
# For one property of a seeding round: confirm both changes (tools/seed_confirm.sh stores the
# confirmed ones under /verif/seeded/<property><letter>/) and run the property's own check of the
# frozen copy blind against each.  One line per step is appended to <round-dir>/results.log.
RD="$1"; FROZEN="$2"; P="$3"; LA="$4"; LB="$5"
for pair in "A:$LA" "B:$LB"; do
  V=${pair%%:*}; L=${pair##*:}; SRC="$RD/out-$P-$V"; ID="$P$L"
  [ -f "$SRC/patch.diff" ] || { echo "$ID: no patch delivered" >> "$RD/results.log"; continue; }
  /verif/tools/seed_confirm.sh "$SRC" "$ID" "$P" > "$RD/confirm-$ID.log" 2>&1
  echo "$ID confirm: $(grep -E '^(RESULT|KEPT|REJECTED)' "$RD/confirm-$ID.log" | tr '\n' ' ')" >> "$RD/results.log"
  if grep -q "^KEPT" "$RD/confirm-$ID.log"; then
    VERIF_WORKERS=${VERIF_WORKERS:-8} /verif/tools/seed_blind.sh "$FROZEN" "$SRC/patch.diff" "$ID" "$P" --tier quick > "$RD/blind-$ID-$P.txt" 2>&1
    echo "$ID blind-own: $(head -3 "$RD/blind-$ID-$P.txt" | tr '\n' ' ' | cut -c1-400)" >> "$RD/results.log"
  fi
done
