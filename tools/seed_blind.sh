#!/bin/bash
# tools/seed_blind.sh <frozen-verif-copy> <patch.diff> <label> <check-id> [extra args]
# Blind run: a check of a *frozen copy* of /verif (taken when the seeding round started) against
# a seeded change applied in a scratch worktree of /repo.  Nothing is written to /verif or /repo.
FROZEN="$1"; PATCH="$2"; LABEL="$3"; CHECK="$4"; shift 4
WT=/tmp/blind-wt-$LABEL-$CHECK
rm -rf "$WT"; git -C /repo worktree prune
git -C /repo worktree add --detach "$WT" HEAD >/dev/null 2>&1 || { echo "cannot create worktree"; exit 2; }
( cd "$WT" && git apply "$PATCH" ) || { echo "BLIND seed=$LABEL check=$CHECK: patch does not apply"; git -C /repo worktree remove --force "$WT"; exit 2; }
ROOT=/tmp/blind-root-$LABEL-$CHECK
rm -rf "$ROOT"; mkdir -p "$ROOT"
for d in api harness checks bin known_findings.jsonl regex; do [ -e "$FROZEN/$d" ] && ln -s "$FROZEN/$d" "$ROOT/$d"; done
export GOFLAGS=-mod=mod GOPROXY=off GOSUMDB=off GOTOOLCHAIN=local
[ -x "$FROZEN/bin/gosmt" ] || (cd "$FROZEN/engine" && go build -o ../bin/gosmt .) || exit 2
VERIF_REPO="$WT" VERIF_ROOT="$ROOT" timeout ${SEED_TIMEOUT:-1500} "$FROZEN/bin/gosmt" check "$CHECK" "$@" > "/tmp/blind-$LABEL-$CHECK.log" 2>&1
rc=$?
git -C /repo worktree remove --force "$WT" >/dev/null 2>&1; rm -rf "$WT" "$ROOT"
echo "BLIND seed=$LABEL check=$CHECK rc=$rc $(grep -E '^VIOLATION' /tmp/blind-$LABEL-$CHECK.log | wc -l)viol $(grep -E '^SPURIOUS' /tmp/blind-$LABEL-$CHECK.log | wc -l)spur"
grep -A1 "^VIOLATION" "/tmp/blind-$LABEL-$CHECK.log" | grep "^  " | cut -c1-220 | head -2
exit $rc
