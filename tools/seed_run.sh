#!/bin/bash
# tools/seed_run.sh <seed-id> <check-id> [extra args for bin/check]
# Applies /verif/seeded/<seed-id>/patch.diff to /repo, runs the check, and undoes the change.
SEED="$1"; CHECK="$2"; shift 2
cd /repo || exit 2
if [ -n "$(git status --porcelain)" ]; then echo "/repo is not clean"; exit 2; fi
git apply "/verif/seeded/$SEED/patch.diff" || { echo "patch does not apply"; exit 2; }
cd /verif && ./bin/check "$CHECK" "$@" > "/tmp/seedrun-$SEED-$CHECK.log" 2>&1
rc=$?
git -C /repo checkout -- . 
echo "SEEDRUN seed=$SEED check=$CHECK rc=$rc"
grep -E "^(VIOLATION|KNOWN-FINDING|SPURIOUS|\[C[0-9]+\] RESULT)" "/tmp/seedrun-$SEED-$CHECK.log" | head -8
grep -A1 "^VIOLATION" "/tmp/seedrun-$SEED-$CHECK.log" | grep "^  " | head -4
exit $rc
