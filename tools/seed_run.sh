#!/bin/bash
# tools/seed_run.sh <seed-id> <check-id> [extra args for bin/check]
# Runs a check against a seeded change.  The change is applied in a scratch worktree of /repo
# (VERIF_REPO points the engine at it) so /repo itself is never modified; evidence and
# counterexamples of the run go to a scratch VERIF_ROOT copy so that /verif/evidence only ever
# holds clean-tree runs.
SEED="$1"; CHECK="$2"; shift 2
WT=/tmp/seedrun-wt-$SEED-$CHECK
rm -rf "$WT"; git -C /repo worktree prune
git -C /repo worktree add --detach "$WT" HEAD >/dev/null 2>&1 || { echo "cannot create worktree"; exit 2; }
( cd "$WT" && git apply "/verif/seeded/$SEED/patch.diff" ) || { echo "SEEDRUN seed=$SEED check=$CHECK: patch does not apply to /repo HEAD"; git -C /repo worktree remove --force "$WT"; exit 2; }
ROOT=/tmp/seedrun-root-$SEED-$CHECK
rm -rf "$ROOT"; mkdir -p "$ROOT"
for d in api harness checks bin known_findings.jsonl regex; do [ -e /verif/$d ] && ln -s /verif/$d "$ROOT/$d"; done
export GOFLAGS=-mod=mod GOPROXY=off GOSUMDB=off GOTOOLCHAIN=local
(cd /verif/engine && go build -o ../bin/gosmt .) || exit 2
VERIF_REPO="$WT" VERIF_ROOT="$ROOT" timeout ${SEED_TIMEOUT:-1800} /verif/bin/gosmt check "$CHECK" "$@" > "/tmp/seedrun-$SEED-$CHECK.log" 2>&1
rc=$?
git -C /repo worktree remove --force "$WT" >/dev/null 2>&1; rm -rf "$WT"
echo "SEEDRUN seed=$SEED check=$CHECK rc=$rc"
grep -E "^(VIOLATION|KNOWN-FINDING|SPURIOUS|\[C[0-9]+\] RESULT)" "/tmp/seedrun-$SEED-$CHECK.log" | head -6
grep -A1 "^VIOLATION" "/tmp/seedrun-$SEED-$CHECK.log" | grep "^  " | cut -c1-260 | head -4
rm -rf "$ROOT"
exit $rc
