#!/usr/bin/env python3
# Regenerates /verif/MANIFEST.json from the table below (keeps it valid at all times).
import json, os
ROOT = os.path.dirname(os.path.dirname(os.path.abspath(__file__)))
props = [json.loads(l) for l in open(os.path.join(ROOT, 'properties.jsonl'))]
SEQ = "symbolic execution of go/ssa of the real code + SMT (z3 5.1.0, cvc5 fallback)"
CLAIMS = {
 "C02": ("bounded symbolic model checking of the real broker (Broker loop, ProxyPolls, ClientOffers, ProxyAnswers) under the engine's scheduler: every interleaving of synchronisation operations and timer expiries for up to 2 proxy polls and 2 clients (2+2: bounded preemptions), wiring oracle at the encoder sinks; LoadBridgeInfo line by line with JSON assignment semantics in the Decoder stub",
         "message codecs and prometheus stubbed (listed in the evidence); data-race freedom between synchronisation points assumed (sleep-set reduction)", SEQ + "; schedule choices enumerated as decision variables with sleep sets"),
 "C03": ("bounded symbolic model checking of AddSnowflake/matchSnowflake/heap code against a two-pool reference model: every history of register / time-out / match operations up to the bound with symbolic NAT classes and 64-bit client counts",
         "prometheus stubbed; sequential histories (concurrent competition is in C02/C04)", SEQ),
 "C04": ("the same exploration as C02 with the liveness oracle: in every terminal state (nothing can move, all timers fired) every handler call has returned, the id map and both pools are empty and a fresh client is told there are no proxies; deadlocks and leaked goroutines are violations",
         "as C02; 'bounded time' is decided as deadlock-freedom under arbitrary timer expiry (the 10 s constants then bound the time)", SEQ + "; schedule choices enumerated with sleep sets; deadlock/leak oracle"),
 "C06": ("bounded symbolic model checking of the real namematcher: the superset law for every pattern pair and hostname up to the stated lengths (any bytes); the broker never registers a proxy whose (presumed) pattern is not a superset of the allowed pattern installed through InstallBridgeListProfile; the proxy's runSession/datachannelHandler never dial a broker-supplied URL whose hostname fails its own pattern",
         "string helpers executed from Go source; bytealg primitives are engine intrinsics; net/url uninterpreted", SEQ),
 "C08": ("symbolic execution of IsLocal/IsUnspecified/IsLoopback for all 2^32 IPv4 and all 2^128 16-byte addresses against the RFC reference predicate; StripLocalAddresses over pion-parsed descriptions with arbitrary parser outcomes (<=2 media sections x <=2 attributes); the client and proxy call sites send the stripped description unless keep-local is set (client: through the real newBrokerChannelFromConfig)",
         "net.IP methods executed from Go source; SDP/ICE parsing (pion) stubbed by contract and outside the claim", SEQ),
 "C09": ("bounded symbolic model checking of the real encapsulation code against a reference codec written from the package comment: all chunk lengths 0..2^20-1, all prefix forms, all cut points and all reader fragmentations within the stated number of items and Read calls",
         "bounds per job in checks/C09.json and in the evidence", SEQ + ", differential against a reference decoder"),
 "C12": ("symbolic execution of every Encode*/Decode* in common/messages with encoding/json replaced by havoc/sink stubs: forbidden messages are rejected, valid ones return their fields with the documented defaults, decode(encode(x)) returns x; FingerprintFromHexString through the real encoding/hex",
         "encoding/json itself and JSON member names are outside the claim (exercised only by the native replays)", SEQ + "; JSON havoc stubs"),
 "C13": ("symbolic execution of DeserializeSessionDescription with json.Unmarshal replaced by an arbitrary-map stub (members of every JSON dynamic type): value or error, never a panic; the four SDP types map to themselves; Deserialize(Serialize(d)) == d for the four types and every ASCII SDP text up to the bound, with encoding/json modelled as the struct-tag mapping of the value actually marshalled; remoteIPFromSDP for every combination of parser outcomes (a value returned with an error is unusable)",
         "encoding/json contract (dynamic types of decoded values, struct-tag mapping: validated against the real library by the self-test and native replays) trusted; JSON text syntax and pion SDP/ICE parsers outside the claim", SEQ + "; JSON havoc stub and struct-tag model"),
 "C18": ("bounded symbolic model checking of the real clientIDMap against a 'last capacity Sets' reference for every Set/Get history up to the bound and capacities 0..3, of clientAddr with net.ParseIP as an uninterpreted function and, in a second job, with the real net.ParseIP / netip.ParseAddr and address formatting executed symbolically on every short string; acceptStreams looks the address up once per session; attribution in the two-carrier scenario; a lookup racing an evicting Set",
         "KCP session identity outside the claim; address strings longer than the bound", SEQ),
}
CLAIMS.update({
 "C07": ("regex bridge: the scrubber's pattern constants are extracted from the SSA of safelog's init on every run, translated (regexp/syntax -> SMT-LIB regex theory) and, per reference address family and delimiter context, the solver decides that no text containing such an address lacks a match (language inclusion, unbounded length); the engine decides that Scrub returns a fixpoint of the one-pass replacement and that LogScrubber.Write emits exactly the complete lines independently of write splitting; solver-generated multi-address lines are run through the real Scrub",
         "Go's regexp engine is trusted to implement the language of its pattern; the translation is cross-validated against Go's regexp on sample strings on every run; address forms without zones; concurrent writers not interleaved",
         "regexp/syntax -> SMT regex theory (z3 5.1.0 || cvc5 portfolio) + symbolic execution of go/ssa for Scrub's structure and the line buffer"),
 "C10": ("partial: bounded symbolic model checking of the armor encoder (one inductive step from any counter state: words <=32 bytes, elements <=32 KiB, balanced pre elements, every byte once), the whitespace splitter (bufio.SplitFunc contract, maximal tokens) and the decoder's state machine over an arbitrary token source",
         "the end-to-end round trip runs through x/net/html's tokenizer, encoding/base64's streaming decoder and an io.Pipe goroutine and is outside the claim", SEQ),
 "C11": ("partial: symbolic execution of EncodePath/DecodePath with the real encoding/base64 (round trip for every poll up to the bound, any padding), limitedRead and both client Exchange methods (fronting, status, 100 KB limit with real 100000/100001-byte bodies), the broker's AMP endpoint (decoded path handed to ClientOffers, exactly its response armored) the domain-prefix selection/fallback label, the basic domain-prefix transformation with the real strings.Replace, and CacheURL's wiring and rejections",
         "net/url, http.NewRequest, IDNA and the SHA-256 value are stubbed/outside", SEQ),
 "C14": ("symbolic execution of the real HTTP handlers with a recording ResponseWriter: every endpoint x method x body outcome returns (no panic, no hang) and a follow-up poll is still answered (also after a rejected poll and with /debug served while brokering); legacy client requests map to the versioned outcome for every NAT header value",
         "net/http's own request parsing, real 100 KB bodies, /prometheus and the /metrics file are outside; proxy polls that wait in RequestOffer are C04's scenarios", SEQ),
 "C15": ("bounded symbolic model checking of the real Peers / connectLoop / NewWebRTCPeerWithEvents code: every sequence of collect / peer-closes-on-its-own / pop / End up to the bound (sequential), End racing Collect and End with a clogged spare queue under every schedule, and every combination of pion/rendezvous failures in one connection attempt",
         "pion API stubbed by contract (arbitrary success/failure; methods dereference their receiver); SOCKS layer and process exit status outside", SEQ + "; schedule choices enumerated with sleep sets; deadlock/leak oracle"),
 "C16": ("symbolic execution of the real runSession / datachannelHandler / pollOffer / tokens code with the broker, pion and gorilla as arbitrary-outcome stubs: the slot is released exactly once on every exit path, the semaphore never exceeds N for every get/ret history up to the bound, and the load reported in two consecutive polls is a multiple of 8 not above the slots in use",
         "timer-vs-open simultaneity and several data channels per client are outside the property's quantifier", SEQ),
 "C17": ("bounded symbolic model checking of RedialPacketConn under every schedule (carrier directions failing in any order; leak oracle: no goroutine retained per redial or after Close), of QueuePacketConn for every operation sequence up to the bound (per-address FIFO, no aliasing, drop when full, fail after Close) and of the client map with an explicit symbolic clock against a reference map",
         "context.WithCancel stubbed; time arithmetic as integer nanoseconds; redial counts beyond the bound outside", SEQ + "; schedule choices enumerated with sleep sets; leak oracle"),
 "C19": ("partial: binCount for every count < 2^53 in the SMT floating-point theory; the rounded Prometheus counter by an inductive step and under every interleaving of two concurrent Incs; printMetrics pairs each label with its own counter and zeroMetrics resets all of them; unique-address figures for every update sequence up to the bound; the journal reader's window selection over <=2 chunks; per-event counters checked at quiescence in the concurrent broker scenarios",
         "HyperLogLog accuracy, HMAC masking and prometheus exposition are outside the claim", SEQ + " (QF_BV + FloatingPoint)"),
})
CLAIMS.update({
 "C05": ("partial: the real turbotunnelMode, QueuePacketConn, ClientMap and encapsulation code under the engine's scheduler with two concurrent carriers: every upstream packet is attributed to the ClientID of the carrier that sent it (order and bytes kept), every downstream packet reaches only the carrier that presented the addressed ClientID (also when the sender recycles its buffer), a carrier without the token never reaches the session layer, and the session key (ClientID.String) is injective",
         "'one session = exactly one accepted connection whose stream continues' and the one-minute gap are KCP/smux session logic and outside the claim; schedules with a bounded number of preemptions", SEQ + "; schedule choices enumerated with sleep sets and a preemption bound"),
 "C20": ("partial by construction: a vector-clock happens-before monitor (go, channels, mutexes, RWMutex, Once, WaitGroup, atomics) runs inside the bounded concurrent explorations of the broker (2 polls + 1 client, 1 poll + 2 clients; thorough 2+2), the server's two-carrier scenario, the client's End/Collect races, the rounded counter, the server's clientIDMap, the proxy's token semaphore, IPC.Debug while brokering, the distinct-IP journal and (thorough) the redialing adapter; any pair of conflicting accesses with a site in repository code that some explored schedule leaves unordered is reported",
         "the statement is about race-detector runs of whole binaries under load, which solver-based checking cannot perform; only accesses visible to the interpreter are monitored (not inside stubbed libraries)", "happens-before (vector clock) monitor over the schedules enumerated by the symbolic executor"),
})
REASONS = {
 "C01": "end-to-end exactly-once in-order delivery is produced by kcp-go/smux/pion/gorilla running in three processes under faults; ~40k lines of third-party I/O- and timer-driven code cannot be encoded by an SSA->SMT executor, and stubbing KCP/smux away removes the mechanism the property is about (DESIGN.md §4 C01); its repo-owned links are decided under C05, C09, C17, C18",
}
UNDER = "check under construction in this session (DESIGN.md §4); not claimed yet"
man = {
 "version": 1,
 "setup_cmd": "cd /verif && export GOFLAGS=-mod=mod GOPROXY=off GOSUMDB=off GOTOOLCHAIN=local && (cd engine && go build -o ../bin/gosmt .) && ./bin/gosmt selftest",
 "hooks": {"guard": "verif", "enable": "none needed: harnesses and the verifapi package are injected through go/packages overlays and `go test -overlay`; /repo carries no hook code",
           "baseline_off_cmd": "cd /repo && GOFLAGS=-mod=mod go test -json -vet=off -count=1 -timeout 25m ./...", "source_commits": [], "add_only": True},
 "engines": [{"name": "gosmt", "path": "/verif/engine", "serves_properties": sorted(CLAIMS),
              "kind_free_text": "forking symbolic executor over go/ssa of the real code (built fresh from /repo on every run); SMT (z3 5.1.0 incremental; cvc5 integer-encoding and one-shot z3 as fallbacks) decides branch feasibility, run-time checks and assertions; goroutine scheduler with sleep sets for the concurrent properties; counterexamples replayed in the interpreter (L1) and natively with go test -overlay (L2)"}],
 "checks": [], "not_applicable": [],
 "notes": "exit codes: 0 held within the stated bounds, 1 violation (VIOLATION line), 2 inconclusive (solver unknown, unwinding failure, vacuity, spurious counterexample, harness no longer compiles). Bounds per job are in checks/<id>.json and are repeated in the evidence.",
}
for p in props:
    i = p['id']
    if i in CLAIMS:
        text, note, tech = CLAIMS[i]
        man["checks"].append({"property_id": i, "quick_cmd": "./bin/check %s --tier quick" % i, "thorough_cmd": "./bin/check %s --tier thorough" % i,
            "evidence_file": "/verif/evidence/%s.json" % i, "replay_cmd_template": "./bin/check --replay {path}", "engine": "gosmt",
            "level_claimed": {"category": "model_checking", "text": text, "design_ref": "DESIGN.md §4 " + i},
            "level_note": note, "technique": tech})
    else:
        man["not_applicable"].append({"property_id": i, "reason": REASONS.get(i, UNDER)})
json.dump(man, open(os.path.join(ROOT, 'MANIFEST.json'), 'w'), indent=1)
print("claimed:", sorted(CLAIMS), "not applicable:", [x['property_id'] for x in man['not_applicable']])
