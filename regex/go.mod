module regex2smt
go 1.23
