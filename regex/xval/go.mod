module xval
go 1.23
