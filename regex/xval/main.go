package main

import (
	"fmt"
	"os"
	"regexp"
	"strings"
)

const ipv4Address = `\d{1,3}\.\d{1,3}\.\d{1,3}\.\d{1,3}`
const ipv6Address = `([0-9a-fA-F]{0,4}:){5,7}([0-9a-fA-F]{0,4})?`
const ipv6Compressed = `([0-9a-fA-F]{0,4}:){0,5}([0-9a-fA-F]{0,4})?(::)([0-9a-fA-F]{0,4}:){0,5}([0-9a-fA-F]{0,4})?`
const ipv6Full = `(` + ipv6Address + `(` + ipv4Address + `))` +
	`|(` + ipv6Compressed + `(` + ipv4Address + `))` +
	`|(` + ipv6Address + `)` + `|(` + ipv6Compressed + `)`
const optionalPort = `(:\d{1,5})?`
const addressPattern = `((` + ipv4Address + `)|(\[(` + ipv6Full + `)\])|(` + ipv6Full + `))` + optionalPort
const fullAddrPattern = `(^|\s|[^\w:])` + addressPattern + `(\s|(:\s)|[^\w:]|$)`

func esc(s string) string {
	var sb strings.Builder
	for _, r := range s {
		fmt.Fprintf(&sb, "\\u{%x}", r)
	}
	return sb.String()
}

func main() {
	if len(os.Args) > 1 && os.Args[1] == "patterns" {
		fmt.Printf("full=%s\n", fullAddrPattern)
		fmt.Printf("addr=%s\n", addressPattern)
		return
	}
	re := regexp.MustCompile(fullAddrPattern)
	samples := []string{"", "1.2.3.4", "x1.2.3.4", "1.2.3.4x", " 1.2.3.4 ", "1.2.3", "1.2.3.4:55", "1.2.3.4:", "1.2.3.4: ", "a:1.2.3.4",
		"1:2:3:4:c:d:e:f", "[1:2:3:4:c:d:e:f]", "[1::]:58344", "::f", "x::f", "::", ":", "a::", "33:B6:FA:F6:94", "33:B6:FA:F6:94:CA", "2019/05/08 15:37:31 starting",
		"::ffff:255.255.255.255", "[2001:db8:3:4::192.0.2.33]", "(1:2:3:4:c:d:e:f)", "1.2.3.4\n5.6.7.8", "999.999.999.999", "1.2.3.4.5", ".1.2.3.4.", "_1.2.3.4", "1.2.3.4_",
		"fe80::1%eth0", "12345::1", "1::2::3", "a=fingerprint:sha-256 33:B6", "http://1.2.3.4/", "1.2.3.4,5.6.7.8", "[::]", "[::", "::]", "x", "1.2.3.4:123456", "é1.2.3.4"}
	for _, s := range samples {
		fmt.Printf("(assert (= (str.in_re \"\\u{2}%s\\u{3}\" hasMatch) %v)) ; %q\n", esc(s), re.MatchString(s), s)
	}
}
