package main

// regex2smt: translate Go regexp patterns (regexp/syntax, Perl flags) into SMT-LIB regex terms.
// Anchors are handled with sentinels: the text is wrapped as \u{2} T \u{3}; ^ and $ become the
// sentinels (no (?m) support needed for safelog), and every character class excludes them.

import (
	"fmt"
	"os"
	"regexp/syntax"
	"strings"
)

const sBegin, sEnd = 0x2, 0x3

func ch(r rune) string { return fmt.Sprintf("\"\\u{%x}\"", r) }

func rng(lo, hi rune) []string {
	// subtract sentinels
	var out []string
	add := func(a, b rune) {
		if a > b {
			return
		}
		if a == b {
			out = append(out, "(str.to_re "+ch(a)+")")
		} else {
			out = append(out, "(re.range "+ch(a)+" "+ch(b)+")")
		}
	}
	if hi > 0x2FFFF {
		hi = 0x2FFFF // z3's character range
	}
	if lo <= sBegin && hi >= sEnd {
		add(lo, sBegin-1)
		add(sEnd+1, hi)
	} else if lo <= sEnd && hi >= sEnd && lo > sBegin {
		add(sEnd+1, hi)
	} else if lo <= sBegin && hi >= sBegin && hi < sEnd {
		add(lo, sBegin-1)
	} else if lo == sBegin || lo == sEnd {
		add(lo+1, hi)
	} else {
		add(lo, hi)
	}
	return out
}

func union(xs []string) string {
	if len(xs) == 0 {
		return "re.none"
	}
	if len(xs) == 1 {
		return xs[0]
	}
	return "(re.union " + strings.Join(xs, " ") + ")"
}
func concat(xs []string) string {
	if len(xs) == 0 {
		return "(str.to_re \"\")"
	}
	if len(xs) == 1 {
		return xs[0]
	}
	return "(re.++ " + strings.Join(xs, " ") + ")"
}

func tr(re *syntax.Regexp) string {
	switch re.Op {
	case syntax.OpEmptyMatch:
		return "(str.to_re \"\")"
	case syntax.OpLiteral:
		var xs []string
		for _, r := range re.Rune {
			if re.Flags&syntax.FoldCase != 0 {
				panic("foldcase unsupported")
			}
			xs = append(xs, "(str.to_re "+ch(r)+")")
		}
		return concat(xs)
	case syntax.OpCharClass:
		var xs []string
		for i := 0; i+1 < len(re.Rune); i += 2 {
			xs = append(xs, rng(re.Rune[i], re.Rune[i+1])...)
		}
		return union(xs)
	case syntax.OpAnyChar:
		return union(rng(0, 0x2FFFF))
	case syntax.OpAnyCharNotNL:
		return union(append(rng(0, '\n'-1), rng('\n'+1, 0x2FFFF)...))
	case syntax.OpBeginText:
		return "(str.to_re " + ch(sBegin) + ")"
	case syntax.OpEndText:
		return "(str.to_re " + ch(sEnd) + ")"
	case syntax.OpBeginLine, syntax.OpEndLine, syntax.OpWordBoundary, syntax.OpNoWordBoundary:
		panic("unsupported anchor " + re.Op.String())
	case syntax.OpCapture:
		return tr(re.Sub[0])
	case syntax.OpStar:
		return "(re.* " + tr(re.Sub[0]) + ")"
	case syntax.OpPlus:
		return "(re.+ " + tr(re.Sub[0]) + ")"
	case syntax.OpQuest:
		return "(re.opt " + tr(re.Sub[0]) + ")"
	case syntax.OpRepeat:
		if re.Max < 0 {
			return fmt.Sprintf("(re.++ ((_ re.loop %d %d) %s) (re.* %s))", re.Min, re.Min, tr(re.Sub[0]), tr(re.Sub[0]))
		}
		return fmt.Sprintf("((_ re.loop %d %d) %s)", re.Min, re.Max, tr(re.Sub[0]))
	case syntax.OpConcat:
		var xs []string
		for _, s := range re.Sub {
			xs = append(xs, tr(s))
		}
		return concat(xs)
	case syntax.OpAlternate:
		var xs []string
		for _, s := range re.Sub {
			xs = append(xs, tr(s))
		}
		return union(xs)
	}
	panic("unsupported op " + re.Op.String())
}

func main() {
	// usage: regex2smt name=pattern ...
	for _, a := range os.Args[1:] {
		i := strings.Index(a, "=")
		re, err := syntax.Parse(a[i+1:], syntax.Perl)
		if err != nil {
			panic(err)
		}
		fmt.Printf("(define-fun %s () (RegEx String) %s)\n", a[:i], tr(re))
	}
}
