package encapsulation

// Harnesses for property C09 (packet framing round-trips under any read fragmentation).
// Executed symbolically by /verif/engine (gosmt) and natively for counterexample replay.

import (
	"io"

	"git.torproject.org/pluggable-transports/snowflake.git/v2/internal/verifapi"
)

// arbReader is the "arbitrary io.Reader": it serves s in fragments of any size the io.Reader
// contract allows - short reads, zero-length reads with a nil error, data together with EOF.
type arbReader struct {
	s        []byte
	pos      int
	calls    int
	zeros    int
	maxCalls int
	maxZeros int
}

func (r *arbReader) Read(p []byte) (int, error) {
	r.calls++
	verifapi.Assume(r.calls <= r.maxCalls) // stated bound: fragments per stream
	rem := len(r.s) - r.pos
	n := verifapi.Int("rd.n")
	verifapi.Assume(0 <= n)
	verifapi.Assume(n <= len(p))
	verifapi.Assume(n <= rem)
	if n == 0 {
		if len(p) > 0 && rem > 0 { // (0, nil) although data is available: allowed, discouraged
			r.zeros++
			verifapi.Assume(r.zeros <= r.maxZeros)
		}
	} else {
		copy(p, r.s[r.pos:r.pos+n])
		r.pos += n
	}
	if r.pos == len(r.s) {
		if n == 0 {
			return 0, io.EOF
		}
		if verifapi.Bool("rd.eofWithData") {
			return n, io.EOF
		}
	}
	return n, nil
}

type c09item struct {
	data       bool
	n          int
	payload    []byte
	start, end int
}

// c09Build writes k items with the reference encoder (the six formats of the package comment,
// non-minimal prefixes included).
func c09Build(k int) ([]byte, [4]c09item) {
	var items [4]c09item
	stream := make([]byte, 0, 1<<23)
	for i := 0; i < k; i++ {
		it := &items[i]
		it.data = verifapi.Bool("item.isData")
		it.n = verifapi.Int("item.n")
		plen := verifapi.Concrete(verifapi.Choice("item.prefixLen", 3)) + 1
		verifapi.Assume(it.n >= 0)
		d := byte(0)
		if it.data {
			d = 0x80
		}
		it.start = len(stream)
		n := it.n
		switch plen {
		case 1:
			verifapi.Assume(n < 1<<6)
			stream = append(stream, d|byte(n))
		case 2:
			verifapi.Assume(n < 1<<13)
			stream = append(stream, d|0x40|byte(n>>7), byte(n&0x7f))
		case 3:
			verifapi.Assume(n < 1<<20)
			stream = append(stream, d|0x40|byte(n>>14), 0x80|byte((n>>7)&0x7f), byte(n&0x7f))
		}
		it.payload = verifapi.BigBytes("payload", n)
		stream = append(stream, it.payload...)
		it.end = len(stream)
	}
	return stream, items
}

// VerifC09_Stream: a reference-encoded stream of data chunks and paddings, cut at an arbitrary
// offset, served by the arbitrary reader, must decode to exactly the data chunks that lie
// wholly before the cut, then io.EOF (cut on a chunk boundary) or io.ErrUnexpectedEOF.
func VerifC09_Stream() {
	k := verifapi.Param("items", 2)
	stream, items := c09Build(k)
	cut := verifapi.Int("cut")
	verifapi.Assume(0 <= cut)
	verifapi.Assume(cut <= len(stream))
	r := &arbReader{s: stream[:cut], maxCalls: verifapi.Param("reads", 7), maxZeros: verifapi.Param("zeros", 1)}
	i := 0
	for {
		for i < k && !items[i].data && items[i].end <= cut {
			i++ // complete padding: invisible
		}
		verifapi.ResetAlloc()
		got, err := ReadData(r)
		if i < k && items[i].data && items[i].end <= cut {
			verifapi.Cover("complete data chunk")
			verifapi.Assert(err == nil, "a complete data chunk is returned without error")
			verifapi.Assert(len(got) == items[i].n, "chunk length equals the written length")
			verifapi.Assert(verifapi.MaxAlloc() <= items[i].n, "allocation bounded by the announced length")
			j := verifapi.Int("j")
			if 0 <= j && j < len(got) {
				verifapi.Assert(got[j] == items[i].payload[j], "chunk content equals the written content")
			}
			i++
			continue
		}
		verifapi.Assert(got == nil, "no data with the terminal error")
		verifapi.Assert(verifapi.MaxAlloc() <= 0xfffff, "allocation bounded by the largest announced length")
		if i == k || cut == items[i].start {
			verifapi.Cover("end at chunk boundary")
			verifapi.Assert(err == io.EOF, "io.EOF exactly at a chunk boundary")
		} else {
			verifapi.Cover("end inside chunk")
			verifapi.Assert(err == io.ErrUnexpectedEOF, "io.ErrUnexpectedEOF inside a prefix or chunk")
		}
		return
	}
}

// refNext is the reference decoder, written from the package comment, operating on the whole
// byte string: it returns the next data chunk at or after pos (start, length), or the error.
func refNext(s []byte, pos int) (start, n, next int, err error) {
	for {
		if pos == len(s) {
			return 0, 0, pos, io.EOF
		}
		b0 := s[pos]
		ln := int(b0 & 0x3f)
		plen := 1
		if b0&0x40 != 0 {
			if pos+1 >= len(s) {
				return 0, 0, pos, io.ErrUnexpectedEOF
			}
			b1 := s[pos+1]
			ln = ln<<7 | int(b1&0x7f)
			plen = 2
			if b1&0x80 != 0 {
				if pos+2 >= len(s) {
					return 0, 0, pos, io.ErrUnexpectedEOF
				}
				b2 := s[pos+2]
				if b2&0x80 != 0 {
					return 0, 0, pos, ErrTooLong
				}
				ln = ln<<7 | int(b2&0x7f)
				plen = 3
			}
		}
		if pos+plen+ln > len(s) {
			return 0, ln, pos, io.ErrUnexpectedEOF
		}
		if b0&0x80 != 0 {
			return pos + plen, ln, pos + plen + ln, nil
		}
		pos += plen + ln
	}
}

// VerifC09_Arbitrary: any byte string is decoded exactly as the reference decoder says -
// chunks in order, then EOF / UnexpectedEOF / TooLong - never a panic, never an allocation
// beyond the announced length.
func VerifC09_Arbitrary() {
	s := verifapi.Bytes("s", verifapi.Param("len", 5))
	r := &arbReader{s: s, maxCalls: verifapi.Param("reads", 8), maxZeros: verifapi.Param("zeros", 1)}
	pos := 0
	for {
		start, n, next, want := refNext(s, pos)
		verifapi.ResetAlloc()
		got, err := ReadData(r)
		verifapi.Assert(verifapi.MaxAlloc() <= 0xfffff, "allocation bounded by the largest announced length")
		if want == nil {
			verifapi.Cover("arbitrary bytes: chunk")
			verifapi.Assert(err == nil, "arbitrary bytes: chunk returned without error")
			verifapi.Assert(len(got) == n, "arbitrary bytes: chunk length")
			verifapi.Assert(verifapi.MaxAlloc() <= n, "arbitrary bytes: allocation bounded by the announced length")
			j := verifapi.Int("j")
			if 0 <= j && j < n {
				verifapi.Assert(got[j] == s[start+j], "arbitrary bytes: chunk content")
			}
			pos = next
			continue
		}
		verifapi.Assert(got == nil, "arbitrary bytes: no data with an error")
		switch want {
		case io.EOF:
			verifapi.Cover("arbitrary bytes: EOF")
			verifapi.Assert(err == io.EOF, "arbitrary bytes: io.EOF at a chunk boundary")
		case io.ErrUnexpectedEOF:
			verifapi.Cover("arbitrary bytes: unexpected EOF")
			verifapi.Assert(err == io.ErrUnexpectedEOF, "arbitrary bytes: io.ErrUnexpectedEOF inside a chunk")
		default:
			verifapi.Cover("arbitrary bytes: too long")
			verifapi.Assert(err == ErrTooLong, "arbitrary bytes: ErrTooLong for a prefix over three bytes")
		}
		return
	}
}

// VerifC09_Prefix: dataPrefixForLength(n) is, for every n in [0, 2^20), a data prefix the
// reference decoder reads back as n; above that it is ErrTooLong.
func VerifC09_Prefix() {
	n := verifapi.Int("n")
	verifapi.Assume(n >= 0)
	p, err := dataPrefixForLength(n)
	if n > 0xfffff {
		verifapi.Cover("prefix: too long")
		verifapi.Assert(err == ErrTooLong, "lengths over 2^20-1 are rejected with ErrTooLong")
		return
	}
	verifapi.Cover("prefix: encodable")
	verifapi.Assert(err == nil, "every length up to 2^20-1 has a prefix")
	verifapi.Assert(len(p) >= 1 && len(p) <= 3, "prefix is 1..3 bytes")
	verifapi.Assert(p[0]&0x80 != 0, "data bit set")
	// decode with the reference rules
	v := int(p[0] & 0x3f)
	more := p[0]&0x40 != 0
	for i := 1; i < len(p); i++ {
		verifapi.Assert(more, "continuation bit announces every further byte")
		v = v<<7 | int(p[i]&0x7f)
		more = p[i]&0x80 != 0
	}
	verifapi.Assert(!more, "last prefix byte has no continuation bit")
	verifapi.Assert(v == n, "prefix decodes to the length")
}

// recWriter records what is written (content and the sizes of the individual writes).
type recWriter struct {
	buf    []byte
	writes int
}

func (w *recWriter) Write(p []byte) (int, error) {
	w.writes++
	w.buf = append(w.buf, p...)
	return len(p), nil
}

// VerifC09_RoundTrip: chunks and paddings written with the real WriteData / WritePadding are
// read back by the real ReadData, through the arbitrary reader, as exactly the data chunks.
func VerifC09_RoundTrip() {
	k := verifapi.Param("items", 2)
	w := &recWriter{buf: make([]byte, 0, 1<<23)}
	var data [4][]byte
	var isData [4]bool
	for i := 0; i < k; i++ {
		isData[i] = verifapi.Bool("rt.isData")
		n := verifapi.Int("rt.n")
		verifapi.Assume(n >= 0)
		before := len(w.buf)
		if isData[i] {
			verifapi.Assume(n <= 0xfffff)
			data[i] = verifapi.BigBytes("rt.payload", n)
			total, err := WriteData(w, data[i])
			verifapi.Assert(err == nil, "WriteData succeeds for every length up to 2^20-1")
			verifapi.Assert(total == len(w.buf)-before, "WriteData reports the bytes written")
		} else {
			verifapi.Assume(n <= verifapi.Param("maxpad", 1100))
			total, err := WritePadding(w, n)
			verifapi.Assert(err == nil, "WritePadding succeeds")
			verifapi.Assert(total == n, "WritePadding reports n")
			verifapi.Assert(len(w.buf)-before == n, "padding of size n occupies exactly n bytes")
		}
	}
	r := &arbReader{s: w.buf, maxCalls: verifapi.Param("reads", 7), maxZeros: verifapi.Param("zeros", 1)}
	for i := 0; i < k; i++ {
		if !isData[i] {
			continue
		}
		got, err := ReadData(r)
		verifapi.Cover("round trip: chunk")
		verifapi.Assert(err == nil, "round trip: chunk read without error")
		verifapi.Assert(len(got) == len(data[i]), "round trip: chunk length")
		j := verifapi.Int("j")
		if 0 <= j && j < len(got) {
			verifapi.Assert(got[j] == data[i][j], "round trip: chunk content")
		}
	}
	_, err := ReadData(r)
	verifapi.Cover("round trip: end")
	verifapi.Assert(err == io.EOF, "round trip: io.EOF after the last chunk")
}

// VerifC09_Padding: WritePadding(w, n) writes exactly n bytes that the reference decoder reads
// as padding only.
func VerifC09_Padding() {
	n := verifapi.Int("n")
	verifapi.Assume(n >= 0)
	verifapi.Assume(n <= verifapi.Param("maxpad", 4096))
	w := &recWriter{buf: make([]byte, 0, 1<<16)}
	total, err := WritePadding(w, n)
	verifapi.Assert(err == nil, "WritePadding succeeds")
	verifapi.Assert(total == n, "WritePadding reports n")
	verifapi.Assert(len(w.buf) == n, "padding of size n occupies exactly n bytes")
	// walk the output with the reference rules: only well-formed padding chunks, ending at n
	pos := 0
	for iter := 0; pos < len(w.buf); iter++ {
		verifapi.Assume(iter < 8)
		b0 := w.buf[pos]
		verifapi.Assert(b0&0x80 == 0, "padding prefix has the data bit clear")
		ln := int(b0 & 0x3f)
		plen := 1
		if b0&0x40 != 0 {
			verifapi.Assert(pos+1 < len(w.buf), "padding prefix complete (2nd byte)")
			ln = ln<<7 | int(w.buf[pos+1]&0x7f)
			plen = 2
			if w.buf[pos+1]&0x80 != 0 {
				verifapi.Assert(pos+2 < len(w.buf), "padding prefix complete (3rd byte)")
				verifapi.Assert(w.buf[pos+2]&0x80 == 0, "padding prefix at most three bytes")
				ln = ln<<7 | int(w.buf[pos+2]&0x7f)
				plen = 3
			}
		}
		verifapi.Assert(pos+plen+ln <= len(w.buf), "padding chunk lies inside the n bytes")
		pos += plen + ln
	}
	verifapi.Cover("padding walked")
	verifapi.Assert(pos == n, "padding chunks end exactly at n")
}

// VerifC09_MaxData: a chunk sized by MaxDataForSize(n) never exceeds the budget n.
func VerifC09_MaxData() {
	n := verifapi.Int("n")
	verifapi.Assume(n >= 1)
	verifapi.Assume(n <= 1<<21)
	m := MaxDataForSize(n)
	verifapi.Assert(m >= 0, "budget helper returns a length")
	p, err := dataPrefixForLength(m)
	verifapi.Cover("budget")
	verifapi.Assert(err == nil, "the returned length is encodable")
	verifapi.Assert(m+len(p) <= n, "chunk sized by the budget helper never exceeds its budget")
}
