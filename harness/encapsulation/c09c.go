package encapsulation

// C09 / C20: independent streams are independent - two streams decoded at the same time (as the
// server's per-connection read loops and the client do) and a third being written do not share
// state: each decoder returns exactly its own chunk, and no access to package-level state is
// left unordered (happens-before monitor).

import (
	"io"

	"git.torproject.org/pluggable-transports/snowflake.git/v2/internal/verifapi"
)

type verifOneByte struct {
	data []byte
	pos  int
}

func (r *verifOneByte) Read(p []byte) (int, error) {
	if r.pos >= len(r.data) {
		return 0, io.EOF
	}
	verifapi.Yield() // another goroutine may run between any two reads
	p[0] = r.data[r.pos]
	r.pos++
	return 1, nil
}

type verifDiscard struct{ n int }

func (w *verifDiscard) Write(p []byte) (int, error) { w.n += len(p); return len(p), nil }

func VerifC09_ConcurrentStreams() {
	a := &verifOneByte{data: []byte{0x83, 'a', 'b', 'c'}}             // one 3-byte data chunk
	b := &verifOneByte{data: []byte{0x40, 0x02, 'p', 'p', 0x81, 'z'}} // 2 bytes of padding (two-byte prefix), then a 1-byte data chunk
	done := make(chan bool, 3)
	var ga, gb []byte
	var ea, eb error
	go func() { ga, ea = ReadData(a); done <- true }()
	go func() { gb, eb = ReadData(b); done <- true }()
	go func() {
		w := &verifDiscard{}
		WriteData(w, []byte("xy"))
		WritePadding(w, 3)
		done <- true
	}()
	<-done
	<-done
	<-done
	verifapi.Cover("both streams decoded")
	verifapi.Assert(ea == nil && len(ga) == 3 && ga[0] == 'a' && ga[1] == 'b' && ga[2] == 'c', "a stream decoded next to another one yields exactly its own chunk")
	verifapi.Assert(eb == nil && len(gb) == 1 && gb[0] == 'z', "a stream decoded next to another one yields exactly its own chunk (padding skipped)")
}

// ---- writer failures -------------------------------------------------------------------------
//
// WriteData / WritePadding on a writer that fails at its k-th Write (after taking some bytes):
// the error is reported, the count is exactly what the writer took, and nothing is written
// after the failure (a stream must not continue with the payload when its length prefix was
// not sent).

type verifFailingWriter struct {
	failAt, writes, taken int
	partial               int
	afterFailure          int
}

func (w *verifFailingWriter) Write(p []byte) (int, error) {
	w.writes++
	if w.failAt != 0 && w.writes > w.failAt {
		w.afterFailure++
	}
	if w.writes == w.failAt {
		k := w.partial
		if k > len(p) {
			k = len(p)
		}
		w.taken += k
		return k, io.ErrClosedPipe
	}
	w.taken += len(p)
	return len(p), nil
}

func VerifC09_WriterFailure() {
	w := &verifFailingWriter{failAt: 1 + verifapi.Concrete(verifapi.Choice("failing write", 3)), partial: verifapi.Concrete(verifapi.Choice("bytes taken", 2))}
	var n int
	var err error
	if verifapi.Bool("padding") {
		n, err = WritePadding(w, 1500) // two padding chunks
	} else {
		n, err = WriteData(w, []byte("data"))
	}
	if w.writes >= w.failAt {
		verifapi.Cover("a write failed")
		verifapi.Assert(err != nil, "a failure of the underlying writer is reported")
		verifapi.Assert(w.afterFailure == 0, "nothing is written after a failed write (no payload without its length prefix)")
	} else {
		verifapi.Assert(err == nil, "no error without a writer failure")
	}
	verifapi.Assert(n == w.taken, "the count returned is the number of bytes the writer took")
}
