package sinkcluster

// C19 (h): the journal writer. Every address handed to the ClusterWriter ends up in exactly one
// chunk - the one that is current when it arrives, also when its arrival is what rolls the
// previous chunk over -, chunks are written with contiguous, ordered time intervals, and an
// address's arrival time lies inside the interval of the chunk that holds it.
// The clock is explicit; the sketch is a recording stub (what is dumped is what was added since
// the last reset).

import (
	"errors"
	"time"

	"git.torproject.org/pluggable-transports/snowflake.git/v2/common/ipsetsink"
	"git.torproject.org/pluggable-transports/snowflake.git/v2/internal/verifapi"
)

var (
	verifClockW  int64
	verifCurrent []int // ids of the addresses in the current sketch
	verifChunks  [][]int
	verifStarts  []int64
	verifEnds    []int64
	verifDumped  []int
	verifLastEnt *SinkEntry
	verifWritten int
	verifSyncs   int
)

func verifNowW() time.Time { return time.Unix(0, verifClockW) }

// ipsetsink stubs
func verifSinkAddW(s *ipsetsink.IPSetSink, ip string) {
	verifCurrent = append(verifCurrent, int(ip[0]-'a'))
}
func verifSinkDumpW(s *ipsetsink.IPSetSink) ([]byte, error) {
	verifDumpsThisCall++
	verifapi.Assert(verifDumpsThisCall <= 1, "one call writes at most one chunk: a failing journal is not retried in a loop while the caller (who holds the metrics lock) waits")
	verifDumped = append([]int(nil), verifCurrent...)
	return []byte("sketch"), nil
}
func verifSinkResetW(s *ipsetsink.IPSetSink) { verifCurrent = nil }

// encoding/json.Marshal: records the entry
func verifMarshalW(v interface{}) ([]byte, error) {
	verifLastEnt = v.(*SinkEntry)
	return []byte("{entry}"), nil
}

type verifJournal struct{}

var verifJournalFails int // the journal write with this number fails (0: none)

func (verifJournal) Write(p []byte) (int, error) {
	verifWritten++
	if verifWritten == verifJournalFails {
		return 0, errJournal // disk full: this chunk did not reach the journal
	}
	verifChunks = append(verifChunks, verifDumped)
	verifStarts = append(verifStarts, verifLastEnt.RecordingStart.UnixNano())
	verifEnds = append(verifEnds, verifLastEnt.RecordingEnd.UnixNano())
	return len(p), nil
}
func (verifJournal) Sync() error { verifSyncs++; return nil }

var verifDumpsThisCall int

var errJournal = errors.New("journal write failed (stub)")

func VerifC19_JournalWriter() {
	verifJournalFails = verifapi.Concrete(verifapi.Choice("failing journal write", 3)) // none, the first, the second
	verifClockW = 1000
	const interval = 100
	c := NewClusterWriter(verifJournal{}, interval, new(ipsetsink.IPSetSink))
	n := verifapi.Param("adds", 4)
	var when [8]int64
	for k := 0; k < n; k++ {
		verifClockW += int64([4]int{0, 50, 100, 101}[verifapi.Concrete(verifapi.Choice("time passes", 4))])
		when[k] = verifClockW
		verifDumpsThisCall = 0
		c.AddIPToSet(string([]byte{byte('a' + k)}))
	}
	verifClockW += 500
	verifDumpsThisCall = 0
	c.WriteIPSetToDisk() // the final flush
	if verifJournalFails != 0 && verifWritten >= verifJournalFails {
		verifapi.Cover("a journal write failed")
		verifClockW += 500
		verifDumpsThisCall = 0
		c.WriteIPSetToDisk() // the journal works again: what the failed write held back is written now
	}
	verifapi.Cover("journal written")
	if len(verifChunks) > 1 {
		verifapi.Cover("a roll-over happened")
	}
	seen := make([]int, n)
	for ci, ch := range verifChunks {
		verifapi.Assert(verifStarts[ci] <= verifEnds[ci], "a chunk's interval is ordered")
		if ci > 0 {
			verifapi.Assert(verifStarts[ci] == verifEnds[ci-1], "chunks are contiguous: a chunk starts where the previous one ended")
		}
		for _, id := range ch {
			seen[id]++
			verifapi.Assert(verifStarts[ci] <= when[id] && when[id] <= verifEnds[ci], "an address lies in the chunk whose interval contains its arrival")
		}
	}
	for k := 0; k < n; k++ {
		verifapi.Assert(seen[k] == 1, "every address handed to the journal writer is recorded in exactly one chunk (also the one whose arrival rolls a chunk over)")
	}
}
