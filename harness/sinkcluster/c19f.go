package sinkcluster

// C19 (f): the journal reader merges exactly the chunks that lie inside the query window.

import (
	"errors"
	"io"
	"time"

	"github.com/clarkduvall/hyperloglog"

	"git.torproject.org/pluggable-transports/snowflake.git/v2/internal/verifapi"
)

type verifLines struct {
	n, pos int
}

func (r *verifLines) Read(p []byte) (int, error) {
	if r.pos >= r.n {
		return 0, io.EOF
	}
	r.pos++
	p[0], p[1] = 'L', '\n' // one journal line per read
	return 2, nil
}

var (
	verifStart, verifEnd [3]int64
	verifLine            int
	verifMerged          int
)

func verifJSONUnmarshalEntry(data []byte, v interface{}) error {
	e := v.(*SinkEntry)
	s := int64(verifapi.Uint16("chunk.start"))
	d := int64(verifapi.Uint16("chunk.len"))
	verifStart[verifLine], verifEnd[verifLine] = s, s+d
	e.RecordingStart, e.RecordingEnd = time.Unix(0, s), time.Unix(0, s+d)
	verifLine++
	return nil
}
func verifNewPlus(p uint8) (*hyperloglog.HyperLogLogPlus, error) {
	return new(hyperloglog.HyperLogLogPlus), nil
}
func verifGobDecode(h *hyperloglog.HyperLogLogPlus, b []byte) error { return nil }
func verifMerge(h *hyperloglog.HyperLogLogPlus, o *hyperloglog.HyperLogLogPlus) error {
	verifMerged++
	return nil
}
func verifCount(h *hyperloglog.HyperLogLogPlus) uint64 { return 0 }

var _ = errors.New

func VerifC19_JournalWindow() {
	from := int64(verifapi.Uint16("from"))
	to := from + int64(verifapi.Uint16("window"))
	n := verifapi.Concrete(verifapi.Choice("chunks", verifapi.Param("chunks", 2)+1))
	c := NewClusterCounter(time.Unix(0, from), time.Unix(0, to))
	res, err := c.Count(&verifLines{n: n})
	verifapi.Assert(err == nil && res != nil, "the journal is read")
	want := 0
	for i := 0; i < n; i++ {
		if from <= verifStart[i] && verifEnd[i] <= to {
			want++
		}
	}
	verifapi.Cover("journal counted")
	verifapi.Assert(int(res.ChunkIncluded) == want, "exactly the chunks recorded inside the window are included (window bounds inclusive)")
	verifapi.Assert(verifMerged == want, "exactly the included chunks are merged into the estimate")
}
