package messages

// C12: broker messages round-trip and invalid ones are rejected.
//
// encoding/json is reflection-based and is not encoded.  json.Unmarshal is replaced by a stub
// that fills the destination struct with an arbitrary value of its type (or fails), and
// json.Marshal by a sink that records the value handed to it.  In native replay the real
// encoding/json runs: the harness first draws the same arbitrary struct, marshals it, and the
// real Unmarshal reproduces it.  Outside the claim: encoding/json itself, JSON member names.

import (
	"encoding/json"
	"errors"

	"git.torproject.org/pluggable-transports/snowflake.git/v2/internal/verifapi"
)

var verifErrJSON = errors.New("json error (stub)")

func verifASCII(name string, max int) string {
	b := verifapi.Bytes(name, max)
	for i := 0; i < max; i++ {
		if i < len(b) {
			verifapi.Assume(b[i] < 0x80) // valid UTF-8 (the property quantifies over valid UTF-8 strings)
		}
	}
	return string(b)
}

func verifNAT(name string) string {
	switch verifapi.Concrete(verifapi.Choice(name, 5)) {
	case 0:
		return ""
	case 1:
		return "unknown"
	case 2:
		return "restricted"
	case 3:
		return "unrestricted"
	}
	return verifASCII(name+".s", verifapi.Param("natlen", 7))
}

func verifNATValid(s string) bool {
	return s == "" || s == "unknown" || s == "restricted" || s == "unrestricted"
}

func verifVersion(name string) string {
	switch verifapi.Concrete(verifapi.Choice(name, 4)) {
	case 0:
		return "1.3"
	case 1:
		return "1"
	case 2:
		return "2.0"
	}
	return verifASCII(name+".s", verifapi.Param("verlen", 2))
}

// reference: the major version is the text before the first '.'
func verifMajorIs1(v string) bool {
	for i := 0; i < len(v); i++ {
		if v[i] == '.' {
			return v[:i] == "1"
		}
	}
	return v == "1"
}

func verifProxyType(name string) string {
	switch verifapi.Concrete(verifapi.Choice(name, 8)) {
	case 6: // near misses of a known type: another case, a trailing byte
		return "Standalone"
	case 7:
		return "webext" + verifASCII(name+".tail", 1)
	case 0:
		return "standalone"
	case 1:
		return "webext"
	case 2:
		return "badge"
	case 3:
		return "iptproxy"
	case 4:
		return ""
	}
	return verifASCII(name+".s", verifapi.Param("typelen", 2))
}

func verifKnownType(s string) bool {
	return s == "standalone" || s == "webext" || s == "badge" || s == "iptproxy"
}

// ---------------- stubs ----------------

var (
	verifDirectLoopback bool        // (fingerprint job) the document is set directly, not through an encoder
	verifLoopback       bool        // Unmarshal returns the last marshalled value
	verifMarshaled      interface{} // the value last handed to json.Marshal
	verifMarshals       int
	verifBody           = []byte("BODY")
)

func verifJSONMarshal(v interface{}) ([]byte, error) {
	k := verifMarshals
	verifMarshals++
	switch x := v.(type) {
	case *ClientPollRequest:
		verifMarshaled = *x
	case *ClientPollResponse:
		verifMarshaled = *x
	default:
		verifMarshaled = v
	}
	// every encoding is a fresh byte slice that names the document it stands for, so that a
	// decoder sees which document it was given (an encoder that hands out a recycled buffer shows)
	verifapi.Assert(k < len(verifMarshaledTab), "harness: more documents than the table holds")
	verifMarshaledTab[k] = verifMarshaled
	verifBody = []byte{'B', 'O', 'D', 'Y', byte('0' + k)}
	return verifBody, nil
}

var verifMarshaledTab [8]interface{}

var (
	verifInPPReq ProxyPollRequest
	verifInPPRes ProxyPollResponse
	verifInPAReq ProxyAnswerRequest
	verifInPARes ProxyAnswerResponse
	verifInCReq  ClientPollRequest
	verifInCRes  ClientPollResponse
	verifPattern string
)

func verifArbPPReq() ProxyPollRequest {
	m := ProxyPollRequest{Sid: verifASCII("Sid", verifapi.Param("slen", 2)), Version: verifVersion("Version"), Type: verifProxyType("Type"),
		NAT: verifNAT("NAT"), Clients: verifapi.Int("Clients")}
	if verifapi.Bool("hasPattern") {
		verifPattern = verifASCII("Pattern", verifapi.Param("slen", 2))
		m.AcceptedRelayPattern = &verifPattern
	}
	return m
}
func verifArbPPRes() ProxyPollResponse {
	st := ""
	switch verifapi.Concrete(verifapi.Choice("Status", 4)) {
	case 0:
		st = "client match"
	case 1:
		st = "no match"
	case 2:
		st = verifASCII("Status.s", 4)
	}
	return ProxyPollResponse{Status: st, Offer: verifASCII("Offer", 3), NAT: verifNAT("NAT"), RelayURL: verifASCII("RelayURL", 3)}
}
func verifArbPAReq() ProxyAnswerRequest {
	return ProxyAnswerRequest{Version: verifVersion("Version"), Sid: verifASCII("Sid", 3), Answer: verifASCII("Answer", 3)}
}
func verifArbPARes() ProxyAnswerResponse {
	st := ""
	switch verifapi.Concrete(verifapi.Choice("Status", 4)) {
	case 0:
		st = "success"
	case 1:
		st = "client gone"
	case 2:
		st = verifASCII("Status.s", 4)
	}
	return ProxyAnswerResponse{Status: st}
}

var verifFPLens = [14]int{0, 1, 2, 38, 39, 40, 41, 42, 62, 63, 64, 65, 66, 24}

// a fingerprint string: hex digits of a symbolic-but-concretised length with one arbitrary
// byte at a chosen position (so that non-hex content is covered without a fork per digit)
func verifArbFingerprint() (fp string, length int, allHex bool) {
	length = verifFPLens[verifapi.Concrete(verifapi.Choice("fp.len", verifapi.Param("fplens", 14)))]
	b := make([]byte, length)
	for i := range b {
		b[i] = "0123456789abcdefABCDEF"[i%22]
	}
	allHex = true
	if length > 0 && verifapi.Bool("fp.odd") {
		pos := 0
		switch verifapi.Concrete(verifapi.Choice("fp.pos", 3)) {
		case 1:
			pos = length / 2
		case 2:
			pos = length - 1
		}
		c := verifapi.Uint8("fp.char")
		verifapi.Assume(c < 0x80)
		b[pos] = c
		allHex = ('0' <= c && c <= '9') || ('a' <= c && c <= 'f') || ('A' <= c && c <= 'F')
	}
	return string(b), length, allHex
}

var verifFPLen int
var verifFPHex bool

func verifArbCReq() ClientPollRequest {
	fp, l, h := verifArbFingerprint()
	verifFPLen, verifFPHex = l, h
	return ClientPollRequest{Offer: verifASCII("Offer", 3), NAT: verifNAT("NAT"), Fingerprint: fp}
}
func verifArbCRes() ClientPollResponse {
	return ClientPollResponse{Answer: verifASCII("Answer", 3), Error: verifASCII("Error", 3)}
}

func verifJSONUnmarshal(data []byte, v interface{}) error {
	if verifLoopback {
		// Unmarshal(Marshal(x)) through the struct-tag model of encoding/json (engine/jsonmodel.go):
		// member names, omitempty, pointers and kinds decide what arrives, not Go type identity
		// which document is this? (the last byte of an encoding names it)
		if len(data) != 5 || data[0] != 'B' || data[4] < '0' || int(data[4]-'0') >= verifMarshals {
			if verifDirectLoopback {
				if !verifapi.JSONTransfer(verifMarshaled, v, nil) {
					return verifErrJSON
				}
				return nil
			}
			return verifErrJSON // not something an encoder produced
		}
		if !verifapi.JSONTransfer(verifMarshaledTab[int(data[4]-'0')], v, nil) {
			return verifErrJSON
		}
		return nil
	}
	// under the executor the harnesses use the two bytes "{}" to stand for "a JSON document"; any
	// other input (nothing at all, stray bytes after the version line) is not JSON
	if len(data) != 2 || data[0] != '{' || data[1] != '}' {
		return verifErrJSON
	}
	if verifapi.Bool("json.err") {
		return verifErrJSON
	}
	// the destination may be the message struct or a pointer to it (json.Unmarshal(data, &p) with
	// p *T): a JSON null then leaves p nil, any other document allocates the struct
	null := false
	switch v.(type) {
	case **ProxyPollRequest, **ProxyPollResponse, **ProxyAnswerRequest, **ProxyAnswerResponse, **ClientPollRequest, **ClientPollResponse:
		null = verifapi.Bool("json.null")
		verifNullDoc = null
	}
	switch t := v.(type) {
	case *ProxyPollRequest:
		verifInPPReq = verifArbPPReq()
		*t = verifInPPReq
	case **ProxyPollRequest:
		*t = nil
		if !null {
			verifInPPReq = verifArbPPReq()
			x := verifInPPReq
			*t = &x
		}
	case *ProxyPollResponse:
		verifInPPRes = verifArbPPRes()
		*t = verifInPPRes
	case **ProxyPollResponse:
		*t = nil
		if !null {
			verifInPPRes = verifArbPPRes()
			x := verifInPPRes
			*t = &x
		}
	case *ProxyAnswerRequest:
		verifInPAReq = verifArbPAReq()
		*t = verifInPAReq
	case **ProxyAnswerRequest:
		*t = nil
		if !null {
			verifInPAReq = verifArbPAReq()
			x := verifInPAReq
			*t = &x
		}
	case *ProxyAnswerResponse:
		verifInPARes = verifArbPARes()
		*t = verifInPARes
	case **ProxyAnswerResponse:
		*t = nil
		if !null {
			verifInPARes = verifArbPARes()
			x := verifInPARes
			*t = &x
		}
	case *ClientPollRequest:
		verifInCReq = verifArbCReq()
		*t = verifInCReq
	case **ClientPollRequest:
		*t = nil
		if !null {
			verifInCReq = verifArbCReq()
			x := verifInCReq
			*t = &x
		}
	case *ClientPollResponse:
		verifInCRes = verifArbCRes()
		*t = verifInCRes
	case **ClientPollResponse:
		*t = nil
		if !null {
			verifInCRes = verifArbCRes()
			x := verifInCRes
			*t = &x
		}
	default:
		verifapi.Assert(false, "json.Unmarshal into an unexpected type")
	}
	return nil
}

var verifNullDoc bool

// native realiser: the input bytes that make the real Unmarshal produce the drawn value
func verifRealise(draw func() interface{}) (data []byte, jsonErr bool) {
	if !verifapi.Native() {
		return []byte("{}"), false
	}
	if verifapi.Bool("json.err") {
		return []byte("{not json"), true
	}
	if verifapi.Bool("json.null") { // only drawn by the executor when the destination is a pointer
		verifNullDoc = true
		return []byte("null"), false
	}
	b, _ := json.Marshal(draw())
	return b, false
}

// ---------------- decoders ----------------

func VerifC12_DecodeProxyPollRequest() {
	data, jerr := verifRealise(func() interface{} { verifInPPReq = verifArbPPReq(); return verifInPPReq })
	sid, ptype, nat, clients, pattern, aware, err := DecodeProxyPollRequestWithRelayPrefix(data)
	m := verifInPPReq
	if jerr || (err != nil && verifapi.Counted("x") < 0) {
		return
	}
	if err != nil && m.Sid == "" && m.Version == "" && m.NAT == "" && m.Type == "" {
		return // json error outcome of the stub (destination untouched) - an error is correct
	}
	bad := !verifMajorIs1(m.Version) || m.Sid == "" || !verifNATValid(m.NAT)
	if bad {
		verifapi.Cover("proxy poll request: forbidden")
		verifapi.Assert(err != nil, "proxy poll request: wrong major version, missing sid or invalid NAT is rejected")
		return
	}
	verifapi.Cover("proxy poll request: valid")
	verifapi.Assert(err == nil, "proxy poll request: a valid message is accepted")
	verifapi.Assert(sid == m.Sid, "proxy poll request: sid is returned")
	verifapi.Assert(clients == m.Clients, "proxy poll request: clients is returned")
	if m.NAT == "" {
		verifapi.Assert(nat == "unknown", "proxy poll request: missing NAT means unknown")
	} else {
		verifapi.Assert(nat == m.NAT, "proxy poll request: NAT is returned")
	}
	if verifKnownType(m.Type) {
		verifapi.Assert(ptype == m.Type, "proxy poll request: known proxy type is returned")
	} else {
		verifapi.Assert(ptype == "unknown", "proxy poll request: unrecognised proxy type means unknown")
	}
	if m.AcceptedRelayPattern == nil {
		verifapi.Cover("proxy poll request: no pattern")
		verifapi.Assert(!aware, "proxy poll request: absent relay pattern is reported as unsupported")
		verifapi.Assert(pattern == "", "proxy poll request: absent relay pattern is empty")
	} else {
		verifapi.Cover("proxy poll request: pattern")
		verifapi.Assert(aware, "proxy poll request: present relay pattern is reported as supported")
		verifapi.Assert(pattern == *m.AcceptedRelayPattern, "proxy poll request: relay pattern is returned")
	}
}

func VerifC12_DecodeProxyPollResponse() {
	data, jerr := verifRealise(func() interface{} { verifInPPRes = verifArbPPRes(); return verifInPPRes })
	offer, nat, relay, err := DecodePollResponseWithRelayURL(data)
	m := verifInPPRes
	if jerr {
		return
	}
	if m.Status == "client match" && m.Offer == "" {
		verifapi.Cover("proxy poll response: match without offer")
		verifapi.Assert(err != nil, "proxy poll response: a match without an offer is rejected")
		return
	}
	if m.Status == "client match" {
		verifapi.Cover("proxy poll response: match")
		verifapi.Assert(err == nil, "proxy poll response: a match with an offer is accepted")
		verifapi.Assert(offer == m.Offer, "proxy poll response: offer is returned")
		verifapi.Assert(relay == m.RelayURL, "proxy poll response: relay URL is returned")
		if m.NAT == "" {
			verifapi.Assert(nat == "unknown", "proxy poll response: missing NAT means unknown")
		} else {
			verifapi.Assert(nat == m.NAT, "proxy poll response: NAT is returned")
		}
	}
	if m.Status == "no match" {
		verifapi.Cover("proxy poll response: no match")
		verifapi.Assert(err == nil, "proxy poll response: no match is not an error")
		verifapi.Assert(offer == "", "proxy poll response: no offer without a match")
	}
}

func VerifC12_DecodeAnswerRequest() {
	data, jerr := verifRealise(func() interface{} { verifInPAReq = verifArbPAReq(); return verifInPAReq })
	answer, sid, err := DecodeAnswerRequest(data)
	m := verifInPAReq
	if jerr {
		return
	}
	if err != nil && m.Sid == "" && m.Version == "" && m.Answer == "" {
		return
	}
	if !verifMajorIs1(m.Version) || m.Sid == "" || m.Answer == "" {
		verifapi.Cover("answer request: forbidden")
		verifapi.Assert(err != nil, "answer request: wrong major version, missing sid or missing answer is rejected")
		return
	}
	verifapi.Cover("answer request: valid")
	verifapi.Assert(err == nil, "answer request: a valid message is accepted")
	verifapi.Assert(answer == m.Answer, "answer request: answer is returned")
	verifapi.Assert(sid == m.Sid, "answer request: sid is returned")
}

func VerifC12_DecodeAnswerResponse() {
	data, jerr := verifRealise(func() interface{} { verifInPARes = verifArbPARes(); return verifInPARes })
	ok, err := DecodeAnswerResponse(data)
	m := verifInPARes
	if jerr {
		return
	}
	if m.Status == "success" {
		verifapi.Cover("answer response: success")
		verifapi.Assert(err == nil, "answer response: success is accepted")
		verifapi.Assert(ok, "answer response: success is reported")
	}
	if m.Status == "client gone" {
		verifapi.Cover("answer response: client gone")
		verifapi.Assert(err == nil, "answer response: client gone is accepted")
		verifapi.Assert(!ok, "answer response: client gone is reported as failure")
	}
}

func VerifC12_DecodeClientPollRequest() {
	var data []byte
	jerr := false
	if verifapi.Native() {
		hdr := verifapi.Bytes("hdr", 5)
		if !verifapi.Bool("hasBody") {
			data = append([]byte{}, hdr...)
		} else if verifapi.Bool("json.err") {
			jerr = true
			data = append(append([]byte{}, hdr...), []byte("{not json")...)
		} else {
			verifInCReq = verifArbCReq()
			b, _ := json.Marshal(verifInCReq)
			data = append(append([]byte{}, hdr...), b...)
		}
	} else {
		data = verifapi.Bytes("hdr", 5)
		if verifapi.Bool("hasBody") { // also byte strings that end right after (or inside) the version line
			data = append(data, '{', '}')
		}
	}
	// reference framing: the text before the first newline must be "1.0"
	nl := -1
	for i := 0; i < len(data); i++ {
		if data[i] == '\n' {
			nl = i
			break
		}
	}
	req, err := DecodeClientPollRequest(data)
	verifapi.Assert((req == nil) != (err == nil), "client poll request: a value or an error")
	if nl < 0 || string(data[:nl]) != "1.0" {
		verifapi.Cover("client poll request: bad framing")
		verifapi.Assert(err != nil, "client poll request: missing newline or wrong version line is rejected")
		return
	}
	if jerr {
		return
	}
	m := verifInCReq
	if err != nil && m.Offer == "" && m.NAT == "" && m.Fingerprint == "" {
		return // json error outcome of the stub
	}
	fpOK := m.Fingerprint == "" || ((verifFPLen == 40 || verifFPLen == 64) && verifFPHex)
	if m.Offer == "" || !verifNATValid(m.NAT) || !fpOK {
		verifapi.Cover("client poll request: forbidden")
		verifapi.Assert(err != nil, "client poll request: missing offer, invalid NAT or a fingerprint that is not 20/32 hex-encoded bytes is rejected")
		return
	}
	verifapi.Cover("client poll request: valid")
	verifapi.Assert(err == nil, "client poll request: a valid message is accepted")
	verifapi.Assert(req.Offer == m.Offer, "client poll request: offer is returned")
	if m.NAT == "" {
		verifapi.Assert(req.NAT == "unknown", "client poll request: missing NAT means unknown")
	} else {
		verifapi.Assert(req.NAT == m.NAT, "client poll request: NAT is returned")
	}
	if m.Fingerprint == "" {
		verifapi.Cover("client poll request: default bridge")
		verifapi.Assert(req.Fingerprint == "2B280B23E1107BB62ABFC40DDCC8824814F80A72", "client poll request: missing fingerprint means the default bridge")
	} else {
		verifapi.Assert(req.Fingerprint == m.Fingerprint, "client poll request: fingerprint is returned")
	}
}

func VerifC12_DecodeClientPollResponse() {
	data, jerr := verifRealise(func() interface{} { verifInCRes = verifArbCRes(); return verifInCRes })
	resp, err := DecodeClientPollResponse(data)
	m := verifInCRes
	verifapi.Assert((resp == nil) != (err == nil), "client poll response: a value or an error")
	if jerr {
		return
	}
	if m.Answer == "" && m.Error == "" {
		verifapi.Cover("client poll response: empty")
		verifapi.Assert(err != nil, "client poll response: neither answer nor error is rejected")
		return
	}
	if err != nil {
		return // json error outcome of the stub cannot be told apart here only if both empty; otherwise:
	}
	verifapi.Cover("client poll response: valid")
	verifapi.Assert(resp.Answer == m.Answer, "client poll response: answer is returned")
	verifapi.Assert(resp.Error == m.Error, "client poll response: error is returned")
}

// VerifC12_Fingerprint: FingerprintFromHexString through the real encoding/hex accepts exactly
// 20 or 32 hex-encoded bytes.
func VerifC12_Fingerprint() {
	fp, l, hex := verifArbFingerprint()
	m := ClientPollRequest{Offer: "o", Fingerprint: fp}
	_ = m
	verifInCReq = ClientPollRequest{Offer: "o", NAT: "", Fingerprint: fp}
	verifFPLen, verifFPHex = l, hex
	verifLoopback, verifDirectLoopback = true, true
	verifMarshaled = verifInCReq
	var data []byte
	if verifapi.Native() {
		b, _ := json.Marshal(verifInCReq)
		data = append([]byte("1.0\n"), b...)
	} else {
		data = []byte("1.0\n{}")
	}
	req, err := DecodeClientPollRequest(data)
	if fp == "" || ((l == 40 || l == 64) && hex) {
		verifapi.Cover("fingerprint: accepted")
		verifapi.Assert(err == nil, "fingerprint: 20 or 32 hex-encoded bytes (or none) are accepted")
		verifapi.Assert(req != nil, "fingerprint: request returned")
	} else {
		verifapi.Cover("fingerprint: rejected")
		verifapi.Assert(err != nil, "fingerprint: anything but 20 or 32 hex-encoded bytes is rejected")
	}
}

// ---------------- encoders and round trips ----------------

func VerifC12_RoundTripProxyPoll() {
	verifLoopback = true
	sid, ptype, nat, clients, pat := "s"+verifASCII("sid", 2), verifProxyType("type"), verifNAT("nat"), verifapi.Int("clients"), verifASCII("pat", 3)
	verifapi.Assume(verifNATValid(nat))
	data, err := EncodeProxyPollRequestWithRelayPrefix(sid, ptype, nat, clients, pat)
	verifapi.Assert(err == nil, "proxy poll request encodes")
	if m, isMsg := verifMarshaled.(ProxyPollRequest); !verifapi.Native() && isMsg {
		verifapi.Assert(m.Sid == sid && m.Type == ptype && m.NAT == nat && m.Clients == clients, "proxy poll request: every field is the corresponding argument")
		verifapi.Assert(verifMajorIs1(m.Version), "proxy poll request: major version 1")
		verifapi.Assert(m.AcceptedRelayPattern != nil, "proxy poll request: relay pattern present")
		verifapi.Assert(*m.AcceptedRelayPattern == pat, "proxy poll request: relay pattern is the argument")
	}
	s2, t2, n2, c2, p2, aware, err := DecodeProxyPollRequestWithRelayPrefix(data)
	verifapi.Cover("round trip: proxy poll request")
	verifapi.Assert(err == nil, "round trip: proxy poll request decodes")
	verifapi.Assert(s2 == sid && c2 == clients && p2 == pat && aware, "round trip: proxy poll request fields")
	if nat == "" {
		verifapi.Assert(n2 == "unknown", "round trip: missing NAT means unknown")
	} else {
		verifapi.Assert(n2 == nat, "round trip: NAT")
	}
	if verifKnownType(ptype) {
		verifapi.Assert(t2 == ptype, "round trip: proxy type")
	} else {
		verifapi.Assert(t2 == "unknown", "round trip: unrecognised proxy type means unknown")
	}
	// the legacy encoder announces an empty pattern
	data, err = EncodeProxyPollRequest(sid, ptype, nat, clients)
	verifapi.Assert(err == nil, "legacy proxy poll request encodes")
	_, _, _, _, p3, _, err := DecodeProxyPollRequestWithRelayPrefix(data)
	verifapi.Assert(err == nil && p3 == "", "round trip: legacy encoder yields the empty pattern")
}

func VerifC12_RoundTripPollResponse() {
	verifLoopback = true
	offer, nat, relay := "o"+verifASCII("offer", 2), verifNAT("nat"), verifASCII("relay", 3)
	if verifapi.Bool("success") {
		data, err := EncodePollResponseWithRelayURL(offer, true, nat, relay, "")
		verifapi.Assert(err == nil, "poll response encodes")
		if m, isMsg := verifMarshaled.(ProxyPollResponse); !verifapi.Native() && isMsg {
			verifapi.Assert(m.Status == "client match" && m.Offer == offer && m.NAT == nat && m.RelayURL == relay, "poll response: every field is the corresponding argument")
		}
		o2, n2, r2, err := DecodePollResponseWithRelayURL(data)
		verifapi.Cover("round trip: poll response match")
		verifapi.Assert(err == nil && o2 == offer && r2 == relay, "round trip: poll response fields")
		if nat == "" {
			verifapi.Assert(n2 == "unknown", "round trip: poll response missing NAT means unknown")
		} else {
			verifapi.Assert(n2 == nat, "round trip: poll response NAT")
		}
	} else {
		data, err := EncodePollResponse(offer, false, nat)
		verifapi.Assert(err == nil, "poll response (no match) encodes")
		if m, isMsg := verifMarshaled.(ProxyPollResponse); !verifapi.Native() && isMsg {
			verifapi.Assert(m.Status == "no match" && m.Offer == "", "poll response: no match carries no offer")
		}
		o2, _, _, err := DecodePollResponseWithRelayURL(data)
		verifapi.Cover("round trip: poll response no match")
		verifapi.Assert(err == nil && o2 == "", "round trip: no match")
	}
}

func VerifC12_RoundTripAnswer() {
	verifLoopback = true
	answer, sid := "a"+verifASCII("answer", 2), "s"+verifASCII("sid", 2)
	data, err := EncodeAnswerRequest(answer, sid)
	verifapi.Assert(err == nil, "answer request encodes")
	if m, isMsg := verifMarshaled.(ProxyAnswerRequest); !verifapi.Native() && isMsg {
		verifapi.Assert(m.Answer == answer && m.Sid == sid && verifMajorIs1(m.Version), "answer request: every field is the corresponding argument")
	}
	// another message is encoded before this one is decoded (a proxy answers several clients):
	// an encoding stays what it was
	_, err = EncodeAnswerRequest("other-answer", "other-sid")
	verifapi.Assert(err == nil, "answer request encodes")
	a2, s2, err := DecodeAnswerRequest(data)
	verifapi.Cover("round trip: answer request")
	verifapi.Assert(err == nil && a2 == answer && s2 == sid, "round trip: answer request fields")
	ok := verifapi.Bool("success")
	data, err = EncodeAnswerResponse(ok)
	verifapi.Assert(err == nil, "answer response encodes")
	ok2, err := DecodeAnswerResponse(data)
	verifapi.Cover("round trip: answer response")
	verifapi.Assert(err == nil && ok2 == ok, "round trip: answer response")
}

func VerifC12_RoundTripClient() {
	verifLoopback = true
	offer, nat := "o"+verifASCII("offer", 2), verifNAT("nat")
	verifapi.Assume(verifNATValid(nat))
	fp := ""
	if verifapi.Bool("hasfp") {
		fp = "8838024498816A039FCBBAB14E6F40A0843051FA"
	}
	req := &ClientPollRequest{Offer: offer, NAT: nat, Fingerprint: fp}
	data, err := req.EncodeClientPollRequest()
	verifapi.Assert(err == nil, "client poll request encodes")
	verifapi.Assert(len(data) >= 4 && string(data[:4]) == "1.0\n", "client poll request starts with the version line")
	if !verifapi.Native() {
		verifapi.Assert(string(data[4:]) == string(verifBody), "client poll request: version line followed by the JSON body")
		if m, isMsg := verifMarshaled.(ClientPollRequest); isMsg {
			verifapi.Assert(m.Offer == offer && m.NAT == nat, "client poll request: every field is the corresponding argument")
		}
	}
	// another client's poll is encoded before this one is decoded (the broker's legacy shim and
	// a client with several rendezvous in flight do that): an encoding stays what it was
	_, err = (&ClientPollRequest{Offer: "other-offer", NAT: "unknown", Fingerprint: "2B280B23E1107BB62ABFC40DDCC8824814F80A72"}).EncodeClientPollRequest()
	verifapi.Assert(err == nil, "client poll request encodes")
	verifapi.Assert(len(data) >= 4 && string(data[:4]) == "1.0\n", "an encoded client poll request is not changed by a later encoding")
	r2, err := DecodeClientPollRequest(data)
	verifapi.Cover("round trip: client poll request")
	same := false
	if err == nil && r2 != nil {
		same = r2.Offer == offer
	}
	verifapi.Assert(same, "round trip: client poll request decodes to the offer that was encoded")
	if nat == "" {
		verifapi.Assert(r2.NAT == "unknown", "round trip: client missing NAT means unknown")
	} else {
		verifapi.Assert(r2.NAT == nat, "round trip: client NAT")
	}
	if fp == "" {
		verifapi.Assert(r2.Fingerprint == "2B280B23E1107BB62ABFC40DDCC8824814F80A72", "round trip: missing fingerprint means the default bridge")
	} else {
		verifapi.Assert(r2.Fingerprint == fp, "round trip: fingerprint")
	}
	// response
	resp := &ClientPollResponse{Answer: verifASCII("answer", 3), Error: verifASCII("error", 3)}
	verifapi.Assume(resp.Answer != "" || resp.Error != "")
	rd, err := resp.EncodePollResponse()
	verifapi.Assert(err == nil, "client poll response encodes")
	_, err = (&ClientPollResponse{Answer: "other-answer"}).EncodePollResponse()
	verifapi.Assert(err == nil, "client poll response encodes")
	p2, err := DecodeClientPollResponse(rd)
	verifapi.Cover("round trip: client poll response")
	verifapi.Assert(err == nil && p2 != nil, "round trip: client poll response decodes")
	verifapi.Assert(p2.Answer == resp.Answer && p2.Error == resp.Error, "round trip: client poll response fields")
}
