package ipsetsink

// C19 (g): "the distinct-IP journal stores only keyed-hash sketches" - every address that enters
// the sketch is HMAC'd under the configured masking key, before and after any number of chunk
// roll-overs (Dump/Reset), and what is added to the sketch is the leading 64 bits of that MAC.

import (
	"hash"

	"github.com/clarkduvall/hyperloglog"

	"git.torproject.org/pluggable-transports/snowflake.git/v2/internal/verifapi"
)

type verifMAC struct {
	key  string
	data []byte
	sum  []byte
}

func (m *verifMAC) Write(p []byte) (int, error) { m.data = append(m.data, p...); return len(p), nil }
func (m *verifMAC) Sum(b []byte) []byte {
	m.sum = verifapi.Bytes("mac", 32)
	verifapi.Assume(len(m.sum) == 32)
	verifLastMAC = m
	return append(b, m.sum...)
}
func (m *verifMAC) Reset()         { m.data = nil }
func (m *verifMAC) Size() int      { return 32 }
func (m *verifMAC) BlockSize() int { return 136 }

var (
	verifKey     string
	verifLastMAC *verifMAC
	verifAdded   int
	verifCleared int
	verifAddr    string
)

// redirect stub for crypto/hmac.New
func verifHMACNew(h func() hash.Hash, key []byte) hash.Hash {
	verifapi.Assert(string(key) == verifKey, "every address is hashed under the configured masking key (also after a roll-over)")
	return &verifMAC{key: string(key)}
}
func verifNewPlus(p uint8) (*hyperloglog.HyperLogLogPlus, error) {
	return new(hyperloglog.HyperLogLogPlus), nil
}

// redirect stub for (*HyperLogLogPlus).Add
func verifHLLAdd(h *hyperloglog.HyperLogLogPlus, item hyperloglog.Hash64) {
	verifAdded++
	verifapi.Assert(verifLastMAC != nil && string(verifLastMAC.data) == verifAddr, "what enters the sketch is the MAC of the address just recorded")
	var want uint64
	for i := 0; i < 8; i++ {
		want = want<<8 | uint64(verifLastMAC.sum[i])
	}
	verifapi.Assert(item.Sum64() == want, "the sketch receives the leading 64 bits of the MAC (never the address itself)")
	verifLastMAC = nil
}
func verifHLLClear(h *hyperloglog.HyperLogLogPlus)                     { verifCleared++ }
func verifHLLGobEncode(h *hyperloglog.HyperLogLogPlus) ([]byte, error) { return []byte("sketch"), nil }

func VerifC19_SinkKey() {
	verifKey = verifapi.String("key", 3)
	s := NewIPSetSink(verifKey)
	n := int(verifapi.Param("ops", 4))
	adds := 0
	for i := 0; i < n; i++ {
		switch verifapi.Concrete(verifapi.Choice("op", 3)) {
		case 0:
			verifAddr = "ip" + verifapi.String("addr", 2)
			s.AddIPToSet(verifAddr)
			adds++
			verifapi.Assert(verifAdded == adds, "every recorded address enters the sketch once")
		case 1:
			s.Reset()
		case 2:
			_, err := s.Dump()
			verifapi.Assert(err == nil, "dump")
		}
	}
	verifapi.Cover("sink history")
	if adds > 0 && verifCleared > 0 {
		verifapi.Cover("address recorded and sink reset")
	}
}
