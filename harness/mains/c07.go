package main

// C07, the last clause: "... is replaced by a placeholder before reaching the log sink".
//
// Each binary's main() wires the standard logger to stderr and/or a log file. This harness runs
// the real main() with arbitrary flag values up to the log.SetOutput call and then pushes marked
// lines through the writer that was installed: unless -unsafe-logging was given, no byte may
// reach a sink (os.Stderr, an opened log file) without having gone through safelog.Scrub.
// The same file is injected into ./client, ./proxy, ./server, ./broker and ./probetest.

import (
	"errors"
	"io"
	"log"
	"os"
	"time"

	"git.torproject.org/pluggable-transports/snowflake.git/v2/internal/verifapi"
)

var (
	verifLogSinks = map[*os.File]bool{} // the files the standard logger's (scrubbed) output ends in
	verifRawCheck bool
	verifUnsafe   bool
	verifWired    int
	verifChecking bool
	verifSunk     int
	verifOpenErr  = errors.New("open failed (stub)")
)

// ---- flag package: arbitrary values ----

func verifBoolFlag(name string) bool {
	v := verifapi.Bool("flag.bool")
	if name == "unsafe-logging" {
		verifUnsafe = v
	}
	return v
}
func verifStringFlag(def string) string {
	return verifapi.String("flag.string", 3) // any short value, the empty one included (no fork per flag)
}
func verifFlagBool(name string, value bool, usage string) *bool { v := verifBoolFlag(name); return &v }
func verifFlagString(name string, value string, usage string) *string {
	v := verifStringFlag(value)
	return &v
}
func verifFlagInt(name string, value int, usage string) *int {
	v := verifapi.Int("flag.int")
	return &v
}
func verifFlagUint(name string, value uint, usage string) *uint {
	v := uint(verifapi.Uint64("flag.uint"))
	return &v
}
func verifFlagDuration(name string, value time.Duration, usage string) *time.Duration {
	v := time.Duration(verifapi.Int64("flag.duration"))
	return &v
}
func verifFlagBoolVar(p *bool, name string, value bool, usage string) { *p = verifBoolFlag(name) }
func verifFlagStringVar(p *string, name string, value string, usage string) {
	*p = verifStringFlag(value)
}
func verifFlagDurationVar(p *time.Duration, name string, value time.Duration, usage string) {
	*p = time.Duration(verifapi.Int64("flag.duration"))
}
func verifFlagParse() {}

// ---- sinks ----

func verifOpenFile(name string, flag int, perm os.FileMode) (*os.File, error) {
	if verifapi.Bool("open.err") {
		return nil, verifOpenErr
	}
	return &os.File{}, nil
}

// every *os.File (stderr, stdout, an opened log file) is a sink
func verifFileWrite(f *os.File, b []byte) (int, error) {
	if verifRawCheck {
		// a logger of its own (log.New): it may write to a file of its own (the broker's metrics
		// log), but what it sends to the file that holds the scrubbed log must be scrubbed too
		for i := 0; i < len(b); i++ {
			verifapi.Assert(verifUnsafe || !verifLogSinks[f] || b[i] != 'A', "a logger created with log.New writes unscrubbed bytes to the sink of the scrubbed log")
		}
	}
	if verifChecking {
		verifLogSinks[f] = true
		for i := 0; i < len(b); i++ {
			verifapi.Assert(verifUnsafe || b[i] != 'A', "a logged byte reached a sink (stderr or the log file) without passing through the scrubber")
		}
		verifSunk += len(b)
	}
	return len(b), nil
}
func verifFileClose(f *os.File) error { return nil }

// redirect stub for safelog.Scrub: marks what it has seen
func verifScrubMark(b []byte) []byte {
	out := make([]byte, len(b))
	for i := 0; i < len(b); i++ {
		out[i] = b[i]
		if b[i] == 'A' {
			out[i] = 'S'
		}
	}
	return out
}

// redirect stub for log.SetOutput: the observation point
func verifSetOutput(w io.Writer) {
	verifWired++
	verifapi.Assert(w != nil, "the log output is a writer")
	verifChecking = true
	w.Write([]byte("A 1.2.3.4\nAA\n"))
	w.Write([]byte("A"))
	w.Write([]byte("A\n"))
	verifChecking = false
	if verifUnsafe {
		verifapi.Cover("log output wired, unsafe logging")
	} else {
		verifapi.Cover("log output wired, scrubbed")
	}
	if verifSunk > 0 {
		verifapi.Cover("bytes reached a sink")
	}
	if verifWired >= int(verifapi.Param("STOP", 1)) {
		os.Exit(0) // stop main() here
	}
}

// redirect stub for log.New: every other logger the binary creates (the broker's metrics logger,
// an http.Server's ErrorLog, ...) is observed as well
func verifLogNew(w io.Writer, prefix string, flag int) *log.Logger {
	verifapi.Cover("a logger of its own is created")
	if w != nil {
		verifRawCheck = true
		w.Write([]byte("A 1.2.3.4\nAA\n"))
		verifRawCheck = false
	}
	l := new(log.Logger)
	return l
}

func VerifC07_MainLogWiring() {
	verifapi.ExpectExit(func() { main() }) // a Go panic inside main() stays a violation
	verifapi.Cover("main returned or stopped")
}

// client only
func verifMakeStateDir() (string, error) {
	if verifapi.Bool("statedir.err") {
		return "", verifOpenErr
	}
	return "state", nil
}
func verifJoin(elem ...string) string { return "state/log" }

// broker only (job loggers-broker): the loaders main() calls between the two logger set-ups
func verifLoadGeoip(geoipDB string, geoip6DB string) error {
	if verifapi.Bool("geoip.err") {
		return verifOpenErr
	}
	return nil
}
func verifOsOpen(name string) (*os.File, error) { return verifOpenFile(name, 0, 0) }
func verifInstallBridgeList(r io.Reader, allowed, presumed string) error {
	if verifapi.Bool("bridgelist.err") {
		return verifOpenErr
	}
	return nil
}

// job loggers-broker: main() is stopped where it starts waiting for signals (after every logger
// and the http.Server value have been set up, before the TLS set-up and the listeners)
func verifSignalNotify(c chan<- os.Signal, sig ...os.Signal) {
	verifapi.Cover("main reached signal.Notify")
	os.Exit(0)
}
