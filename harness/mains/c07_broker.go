package main

import "io"

// method-shaped redirect targets for the broker's loggers-broker job (receiver first)
func verifLoadGeoipM(m *Metrics, geoipDB string, geoip6DB string) error {
	return verifLoadGeoip(geoipDB, geoip6DB)
}
func verifInstallBridgeListM(ctx *BrokerContext, r io.Reader, allowed, presumed string) error {
	return verifInstallBridgeList(r, allowed, presumed)
}
