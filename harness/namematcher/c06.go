package namematcher

// C06 (a): a relay-name pattern judged a superset of another accepts every hostname the
// other accepts.

import "git.torproject.org/pluggable-transports/snowflake.git/v2/internal/verifapi"

func VerifC06_SupersetLaw() {
	p := verifapi.String("p", verifapi.Param("plen", 5))
	q := verifapi.String("q", verifapi.Param("plen", 5))
	s := verifapi.String("s", verifapi.Param("slen", 6))
	m, o := NewNameMatcher(p), NewNameMatcher(q)
	if m.IsSupersetOf(o) {
		if o.IsMember(s) {
			verifapi.Cover("superset and member")
			verifapi.Assert(m.IsMember(s), "a superset pattern accepts every hostname the subset pattern accepts")
		}
	}
}
