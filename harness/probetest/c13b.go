package main

// C13 (NAT probe server): makePeerConnectionFromOffer returns a connection or an error - never
// neither - for every combination of pion failures; the handler dereferences the connection
// whenever there is no error.

import (
	"github.com/pion/webrtc/v3"

	"git.torproject.org/pluggable-transports/snowflake.git/v2/internal/verifapi"
)

func verifNewPC13b(cfg webrtc.Configuration) (*webrtc.PeerConnection, error) {
	if verifapi.Bool("NewPeerConnection.fails") {
		return nil, verifErr13
	}
	return new(webrtc.PeerConnection), nil
}
func verifOnDataChannel13b(pc *webrtc.PeerConnection, f func(*webrtc.DataChannel)) {}
func verifGathering13b(pc *webrtc.PeerConnection) <-chan struct{} {
	ch := make(chan struct{})
	close(ch)
	return ch
}
func verifSetRemote13b(pc *webrtc.PeerConnection, d webrtc.SessionDescription) error {
	if verifapi.Bool("SetRemoteDescription.fails") {
		return verifErr13
	}
	return nil
}
func verifCreateAnswer13b(pc *webrtc.PeerConnection, o *webrtc.AnswerOptions) (webrtc.SessionDescription, error) {
	if verifapi.Bool("CreateAnswer.fails") {
		return webrtc.SessionDescription{}, verifErr13
	}
	return webrtc.SessionDescription{Type: webrtc.SDPTypeAnswer, SDP: "answer"}, nil
}
func verifSetLocal13b(pc *webrtc.PeerConnection, d webrtc.SessionDescription) error {
	if verifapi.Bool("SetLocalDescription.fails") {
		return verifErr13
	}
	return nil
}
func verifPCClose13b(pc *webrtc.PeerConnection) error {
	if verifapi.Bool("Close.fails") {
		return verifErr13
	}
	return nil
}

func VerifC13_ProbeMakePC() {
	pc, err := makePeerConnectionFromOffer(&webrtc.SessionDescription{Type: webrtc.SDPTypeOffer, SDP: "offer"}, make(chan struct{}))
	verifapi.Cover("probe server: peer connection from an offer")
	verifapi.Assert((pc == nil) != (err == nil), "C13: a peer connection or an error - never neither (the handler uses the connection whenever there is no error)")
}
