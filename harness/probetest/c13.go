package main

// C13, the caller on the untrusted path (NAT probe server): whatever a remote proxy posts to
// /probe, the handler returns a response and never panics.

import (
	"errors"
	"io"
	"net/http"
	"time"

	"github.com/pion/webrtc/v3"

	"git.torproject.org/pluggable-transports/snowflake.git/v2/internal/verifapi"
)

var verifErr13 = errors.New("stub error")

type verifRecorder13 struct {
	hdr    http.Header
	status int
	writes int
}

func (r *verifRecorder13) Header() http.Header { return r.hdr }
func (r *verifRecorder13) Write(p []byte) (int, error) {
	if r.status == 0 {
		r.status = 200
	}
	r.writes++
	return len(p), nil
}
func (r *verifRecorder13) WriteHeader(code int) {
	if r.status == 0 {
		r.status = code
	}
}

func verifReadAll13(r io.Reader) ([]byte, error) {
	if verifapi.Bool("body.fails") {
		return nil, verifErr13
	}
	return []byte("body"), nil
}
func verifMaxBytesReader13(w http.ResponseWriter, r io.ReadCloser, n int64) io.ReadCloser { return r }

// what the remote proxy sent, after the (separately checked) message decoder
func verifDecodePollResponse13(data []byte) (string, string, error) {
	if verifapi.Bool("decode.fails") {
		return "", "", verifErr13
	}
	return verifapi.String("remote.offer", 2), "unknown", nil
}
func verifDeserialize13(msg string) (*webrtc.SessionDescription, error) {
	if verifapi.Bool("deserialize.fails") {
		verifapi.Cover("the offer does not deserialise")
		return nil, verifErr13
	}
	return &webrtc.SessionDescription{Type: webrtc.SDPTypeOffer, SDP: "sdp"}, nil
}
func verifSerialize13(d *webrtc.SessionDescription) (string, error) {
	if verifapi.Bool("serialize.fails") {
		return "", verifErr13
	}
	return "serialized", nil
}
func verifStrip13(s string) string { return s }
func verifMakePC13(sdp *webrtc.SessionDescription, dataChan chan struct{}) (*webrtc.PeerConnection, error) {
	verifapi.Assert(sdp != nil, "a peer connection is only made from a description")
	if verifapi.Bool("pc.fails") {
		return nil, verifErr13
	}
	return new(webrtc.PeerConnection), nil
}
func verifLocalDescription13(pc *webrtc.PeerConnection) *webrtc.SessionDescription {
	return &webrtc.SessionDescription{Type: webrtc.SDPTypeAnswer, SDP: "local"}
}
func verifPCClose13(pc *webrtc.PeerConnection) error { return nil }
func verifEncodeAnswerRequest13(answer string, sid string) ([]byte, error) {
	if verifapi.Bool("encode.fails") {
		return nil, verifErr13
	}
	return []byte("answer"), nil
}
func verifNewTimer13(d time.Duration) *time.Timer {
	c := make(chan time.Time, 1)
	c <- time.Time{}
	return &time.Timer{C: c}
}
func verifTimerStop13(t *time.Timer) bool { return true }

func VerifC13_ProbeHandler() {
	w := &verifRecorder13{hdr: http.Header{}}
	r := &http.Request{Method: "POST", Header: http.Header{}}
	probeHandler(w, r)
	verifapi.Cover("probe handler returned")
	verifapi.Assert(w.status != 0, "the probe handler answers every request")
	verifapi.Quiesce()
}
