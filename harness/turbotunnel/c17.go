package turbotunnel

// C17: turbotunnel packet adapters: no surfaced errors, leaks or aliasing.

import (
	"context"
	"errors"
	"net"
	"time"

	"git.torproject.org/pluggable-transports/snowflake.git/v2/internal/verifapi"
)

type verifAddr struct{}

func (verifAddr) Network() string { return "v" }
func (verifAddr) String() string  { return "v" }

var verifErrCarrier = errors.New("carrier failed")

// ---------------------------------------------------------------- (a) RedialPacketConn

type verifCarrier struct {
	closed   chan struct{}
	closeCnt int
	seq      byte // next packet number this carrier delivers
	reads    int
	writes   int
}

// ReadFrom: deliver a packet (at most 2 per carrier), fail on its own accord, or block until
// the carrier is closed - the choice is the solver's.
func (c *verifCarrier) ReadFrom(p []byte) (int, net.Addr, error) {
	switch verifapi.Concrete(verifapi.Choice("carrier.read", 3)) {
	case 0:
		if c.reads < verifapi.Param("packets", 1) {
			c.reads++
			verifNextSeq++
			p[0] = verifNextSeq
			return 1, verifAddr{}, nil
		}
	case 1:
		return 0, nil, verifErrCarrier // read side fails first
	}
	<-c.closed
	return 0, nil, verifErrCarrier
}
func (c *verifCarrier) WriteTo(p []byte, a net.Addr) (int, error) {
	c.writes++
	if verifapi.Bool("carrier.writeFails") {
		return 0, verifErrCarrier // write side fails
	}
	return len(p), nil
}
func (c *verifCarrier) Close() error {
	c.closeCnt++
	if c.closeCnt == 1 {
		close(c.closed)
		// a carrier's own Close may report an error ("use of closed network connection"):
		// that is neither a Close of the RedialPacketConn nor a failed dial
		if verifapi.Param("close_errs", 0) == 1 && verifapi.Bool("carrier.closeFails") {
			return verifErrCarrier
		}
	}
	return nil
}
func (c *verifCarrier) LocalAddr() net.Addr                { return verifAddr{} }
func (c *verifCarrier) SetDeadline(t time.Time) error      { return nil }
func (c *verifCarrier) SetReadDeadline(t time.Time) error  { return nil }
func (c *verifCarrier) SetWriteDeadline(t time.Time) error { return nil }

var verifNextSeq byte

// redirect for context.WithCancel (the context package's own machinery is not the subject)
func verifWithCancel(parent context.Context) (context.Context, context.CancelFunc) {
	return parent, func() {}
}

func VerifC17_Redial() {
	var carriers [4]*verifCarrier
	n := 0
	maxDials := verifapi.Param("dials", 2)
	stop := make(chan struct{})
	dialErr := false
	dial := func(ctx context.Context) (net.PacketConn, error) {
		if n > 0 {
			verifapi.Assert(carriers[n-1].closeCnt >= 1, "at most one carrier active: the previous carrier is closed before the next dial")
		}
		if n == maxDials {
			<-stop // no more carriers until the conn is closed
			if verifapi.Param("late_dial", 0) == 1 && verifapi.Bool("the dial in flight during Close succeeds") {
				late := &verifCarrier{closed: make(chan struct{})}
				carriers[n] = late // a carrier obtained after Close must be closed as well
				n++
				return late, nil
			}
			dialErr = true
			return nil, verifErrCarrier
		}
		c := &verifCarrier{closed: make(chan struct{})}
		carriers[n] = c
		n++
		return c, nil
	}
	c := NewRedialPacketConn(verifAddr{}, verifAddr{}, dial)
	_, err := c.WriteTo([]byte{1}, nil)
	verifapi.Assert(err == nil, "WriteTo before Close and without a dial error reports no error")
	_, err = c.WriteTo([]byte{2}, nil)
	verifapi.Assert(err == nil, "WriteTo before Close and without a dial error reports no error")
	var got [8]byte
	ngot := 0
	readerDone := false
	go func() {
		var buf [4]byte
		for {
			k, _, err := c.ReadFrom(buf[:])
			if err != nil {
				verifapi.Assert(verifClosedChan(c.closed), "ReadFrom reports an error only after Close or a dial error")
				readerDone = true
				return
			}
			if k == 1 && ngot < 8 {
				got[ngot] = buf[0]
				ngot++
			}
		}
	}()
	verifapi.Quiesce()
	verifapi.Cover("redial: quiescent before close")
	verifapi.Assert(!dialErr, "no dial error before the harness allows it")
	open := 0
	for i := 0; i < n; i++ {
		if carriers[i].closeCnt == 0 {
			open++
		}
	}
	verifapi.Assert(open <= 1, "at most one carrier is active")
	verifapi.Assert(verifapi.LiveGoroutines("exchange") <= 2*open, "no goroutine is retained per redial: once a carrier is given up its reader and writer goroutines are gone")
	err = c.Close()
	verifapi.Assert(err == nil, "first Close succeeds")
	close(stop)
	verifapi.Quiesce()
	verifapi.Cover("redial: closed")
	verifapi.Assert(readerDone, "a blocked ReadFrom returns after Close")
	for i := 0; i < n; i++ {
		verifapi.Assert(carriers[i].closeCnt >= 1, "every carrier obtained is closed")
	}
	// (no ordering claim across carriers: the property states FIFO for the server-side queue
	// only, and a replaced carrier's reader may still hand over the packet it was holding)
	_ = got
	_, err = c.WriteTo([]byte{3}, nil)
	verifapi.Assert(err != nil, "WriteTo after Close fails")
	verifapi.Assert(c.Close() != nil, "second Close reports an error")
	// the engine's leak oracle: when this function returns no goroutine of the package may
	// still be blocked (no reader/writer goroutine retained per redial)
}

func verifClosedChan(ch chan struct{}) bool {
	select {
	case <-ch:
		return true
	default:
		return false
	}
}

// ---------------------------------------------------------------- (b) QueuePacketConn

func verifNewQueueConn() *QueuePacketConn {
	// state built directly: NewClientMap's sweeper goroutine is modelled by explicit sweeps
	return &QueuePacketConn{
		clients:   &ClientMap{inner: clientMapInner{byAge: make([]*clientRecord, 0), byAddr: make(map[net.Addr]int)}},
		localAddr: verifAddr{},
		recvQueue: make(chan taggedPacket, queueSize),
		closed:    make(chan struct{}),
	}
}

func verifClientAddr(i int) net.Addr {
	var id ClientID
	id[0] = byte(i + 1)
	return id
}

func VerifC17_Queue() {
	c := verifNewQueueConn()
	addrs := [2]net.Addr{verifClientAddr(0), verifClientAddr(1)}
	type pkt struct {
		b    byte
		addr int
	}
	var in [8]pkt // reference: incoming FIFO
	inHead, inTail := 0, 0
	var out [2][8]byte // reference: per-address outgoing FIFO
	var outHead, outTail [2]int
	closed := false
	ops := verifapi.Param("ops", 4)
	for step := 0; step < ops; step++ {
		switch verifapi.Concrete(verifapi.Choice("op", 5)) {
		case 0: // QueueIncoming
			a := verifapi.Concrete(verifapi.Choice("addr", 2))
			buf := []byte{verifapi.Uint8("payload"), 0x55}
			want := buf[0]
			c.QueueIncoming(buf, addrs[a])
			buf[0] ^= 0xff // the caller reuses its buffer
			if !closed {
				in[inTail] = pkt{want, a}
				inTail++
			}
		case 1: // ReadFrom (only when it cannot block: a packet is queued or the conn is closed)
			if inHead < inTail || closed {
				var p [4]byte
				rb := p[:]
				short := !closed && verifapi.Bool("short read buffer")
				if short {
					rb = p[:1] // shorter than the packet: a PacketConn returns what fits, never more than len(p)
				}
				n, addr, err := c.ReadFrom(rb)
				if short {
					verifapi.Assert(err == nil && n == 1 && p[0] == in[inHead].b, "ReadFrom never reports more bytes than the caller's buffer holds")
					verifapi.Assert(addr == addrs[in[inHead].addr], "a packet is delivered with the address it was queued under")
					inHead++
					continue
				}
				if closed {
					verifapi.Cover("queue: read after close")
					verifapi.Assert(err != nil, "ReadFrom fails after Close")
				} else {
					verifapi.Cover("queue: read")
					verifapi.Assert(err == nil, "ReadFrom delivers a queued packet")
					verifapi.Assert(n == 2 && p[0] == in[inHead].b && p[1] == 0x55, "incoming packets are delivered first-in-first-out, unaffected by the caller reusing its buffer")
					verifapi.Assert(addr == addrs[in[inHead].addr], "a packet is delivered with the address it was queued under")
					inHead++
				}
			}
		case 2: // WriteTo
			a := verifapi.Concrete(verifapi.Choice("addr", 2))
			buf := []byte{verifapi.Uint8("payload")}
			want := buf[0]
			n, err := c.WriteTo(buf, addrs[a])
			buf[0] ^= 0xff
			if closed {
				verifapi.Assert(err != nil, "WriteTo fails after Close")
			} else {
				verifapi.Assert(err == nil && n == 1, "WriteTo never fails before Close")
				out[a][outTail[a]] = want
				outTail[a]++
			}
		case 3: // take one packet from a client's outgoing queue
			a := verifapi.Concrete(verifapi.Choice("addr", 2))
			select {
			case p, ok := <-c.OutgoingQueue(addrs[a]):
				verifapi.Cover("queue: outgoing packet")
				verifapi.Assert(ok, "an outgoing queue is not closed while its client is live")
				verifapi.Assert(outHead[a] < outTail[a], "only written packets appear in an outgoing queue")
				verifapi.Assert(len(p) == 1 && p[0] == out[a][outHead[a]], "outgoing packets are per-address first-in-first-out and not aliased to the caller's buffer")
				outHead[a]++
			default:
				verifapi.Assert(outHead[a] == outTail[a], "a written packet is waiting in its client's outgoing queue")
			}
		case 4:
			err := c.Close()
			if closed {
				verifapi.Cover("queue: second close")
				verifapi.Assert(err != nil, "a second Close reports an error")
			} else {
				verifapi.Assert(err == nil, "the first Close succeeds")
			}
			closed = true
		}
	}
}

// VerifC17_QueueFull: with a full queue QueueIncoming and WriteTo drop instead of blocking.
func VerifC17_QueueFull() {
	c := verifNewQueueConn()
	a := verifClientAddr(0)
	for i := 0; i < queueSize; i++ {
		c.recvQueue <- taggedPacket{[]byte{1}, a}
	}
	q := c.clients.SendQueue(a)
	for i := 0; i < queueSize; i++ {
		q <- []byte{1}
	}
	c.QueueIncoming([]byte{2}, a) // must return (a block here is reported by the engine)
	verifapi.Assert(len(c.recvQueue) == queueSize, "a full incoming queue drops the packet")
	n, err := c.WriteTo([]byte{2}, a)
	verifapi.Cover("queue full")
	verifapi.Assert(err == nil && n == 1, "WriteTo on a full queue reports success (drop)")
	verifapi.Assert(len(q) == queueSize, "a full outgoing queue drops the packet")
}

// ---------------------------------------------------------------- (c) client map, explicit clock

func verifQueueClosed(q chan []byte) bool {
	select {
	case _, ok := <-q:
		return !ok
	default:
		return false
	}
}

type verifRefRec struct {
	present bool
	last    int64
	q       chan []byte
	marker  bool
}

func VerifC17_ClientMap() {
	inner := clientMapInner{byAge: make([]*clientRecord, 0), byAddr: make(map[net.Addr]int)}
	var addrs [3]net.Addr
	for i := range addrs {
		addrs[i] = verifClientAddr(i)
	}
	var ref [3]verifRefRec
	timeout := int64(verifapi.Uint16("timeout"))
	verifapi.Assume(timeout > 0)
	now := int64(0)
	ops := verifapi.Param("ops", 4)
	for step := 0; step < ops; step++ {
		now += int64(verifapi.Uint16("dt"))
		if verifapi.Bool("sweep") {
			inner.removeExpired(time.Unix(0, now), time.Duration(timeout))
			for i := range ref {
				if ref[i].present && now-ref[i].last >= timeout {
					ref[i].present = false
					verifapi.Cover("clientmap: expired")
					if ref[i].marker {
						<-ref[i].q // drain the marker packet
						ref[i].marker = false
					}
					verifapi.Assert(verifQueueClosed(ref[i].q), "a queue idle for the full timeout is closed at the sweep")
				}
			}
		} else {
			i := verifapi.Concrete(verifapi.Choice("addr", 3))
			q := inner.SendQueue(addrs[i], time.Unix(0, now))
			if ref[i].present {
				verifapi.Cover("clientmap: refresh")
				verifapi.Assert(q == ref[i].q, "a client's queue is kept while the client is seen within the timeout")
				if ref[i].marker {
					verifapi.Assert(len(q) == 1, "the queue's contents are kept")
				}
			} else {
				ref[i].q = q
				q <- []byte{byte(i)}
				ref[i].marker = true
			}
			ref[i].present, ref[i].last = true, now
		}
		for i := range ref {
			_, ok := inner.byAddr[addrs[i]]
			verifapi.Assert(ok == ref[i].present, "a record exists iff the client was seen and no sweep found it idle for the full timeout")
		}
		verifapi.Assert(len(inner.byAge) == len(inner.byAddr), "the two indexes stay consistent")
	}
}

// VerifC05_ClientIDKey: kcp-go keys its sessions by RemoteAddr().String(); two different
// ClientIDs must therefore never render to the same string, or two clients share a session.
func VerifC05_ClientIDKey() {
	var a, b ClientID
	for i := 0; i < 8; i++ {
		a[i] = verifapi.Uint8("a")
		b[i] = verifapi.Uint8("b")
	}
	verifapi.Assume(a != b)
	verifapi.Cover("two different ClientIDs")
	verifapi.Assert(a.String() != b.String(), "different ClientIDs name different sessions (the session key is injective)")
	verifapi.Assert(a.Network() == "clientid", "network name")
}
