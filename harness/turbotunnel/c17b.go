package turbotunnel

// C17, two more scenarios of the packet adapters.

import (
	"context"
	"net"
	"time"

	"git.torproject.org/pluggable-transports/snowflake.git/v2/internal/verifapi"
)

// ---- (a') redial with a full receive queue ---------------------------------------------------
//
// Nobody reads from the RedialPacketConn (KCP is busy, or the session is idle) and its receive
// queue is full. A carrier that still delivers a packet and then fails must be given up like
// any other: no goroutine is retained for it ("OK to drop packets").

type verifOnePacketCarrier struct {
	reads    int
	closeCnt int
	closed   chan struct{}
}

func (c *verifOnePacketCarrier) ReadFrom(p []byte) (int, net.Addr, error) {
	c.reads++
	if c.reads == 1 {
		p[0] = 7
		return 1, verifAddr{}, nil
	}
	return 0, nil, verifErrCarrier
}
func (c *verifOnePacketCarrier) WriteTo(p []byte, a net.Addr) (int, error) { return len(p), nil }
func (c *verifOnePacketCarrier) Close() error {
	c.closeCnt++
	if c.closeCnt == 1 {
		close(c.closed)
	}
	return nil
}
func (c *verifOnePacketCarrier) LocalAddr() net.Addr                { return verifAddr{} }
func (c *verifOnePacketCarrier) SetDeadline(t time.Time) error      { return nil }
func (c *verifOnePacketCarrier) SetReadDeadline(t time.Time) error  { return nil }
func (c *verifOnePacketCarrier) SetWriteDeadline(t time.Time) error { return nil }

func VerifC17_RedialRecvFull() {
	gate, stop := make(chan struct{}), make(chan struct{})
	carrier := &verifOnePacketCarrier{closed: make(chan struct{})}
	dials := 0
	dial := func(ctx context.Context) (net.PacketConn, error) {
		dials++
		if dials == 1 {
			<-gate
			return carrier, nil
		}
		<-stop
		return nil, verifErrCarrier
	}
	c := NewRedialPacketConn(verifAddr{}, verifAddr{}, dial)
	verifapi.Quiesce()                        // the dial loop is now waiting at the gate
	for len(c.recvQueue) < cap(c.recvQueue) { // fill the queue while the first dial is still pending
		c.recvQueue <- []byte{0}
	}
	close(gate)
	verifapi.Quiesce()
	verifapi.Cover("carrier failed with the receive queue full")
	verifapi.Assert(carrier.reads == 2 && dials == 2, "the carrier delivered a packet, failed and was replaced")
	verifapi.Assert(carrier.closeCnt >= 1, "the failed carrier is closed")
	verifapi.Assert(verifapi.LiveGoroutines("exchange") == 0, "no goroutine is retained for a carrier that was given up, also when the receive queue was full")
	verifapi.Assert(len(c.recvQueue) == cap(c.recvQueue), "the packet that did not fit was dropped")
	c.Close()
	close(stop)
	verifapi.Quiesce()
}

// ---- (c') the sweeper goroutine of ClientMap, driven by an explicit clock --------------------
//
// time.Sleep hands control to the harness, which advances the clock by the requested duration
// and wakes the sweeper; time.Now reads the clock. A client touched one nanosecond after a
// sweep is the worst case: its queue must stay open while it has been idle for less than the
// timeout, and must be closed by the last sweep that runs before one and a half timeouts have
// passed since it was last seen.

var (
	verifClock17    int64
	verifSleepReq17 = make(chan int64)
	verifWake17     = make(chan struct{})
)

func verifNow17() time.Time { return time.Unix(0, verifClock17) }
func verifSleep17(d time.Duration) {
	verifapi.Daemon() // the sweeper never ends
	verifSleepReq17 <- int64(d)
	<-verifWake17
}

func VerifC17_Sweeper() {
	const timeout = 1000
	verifClock17 = 0
	m := NewClientMap(timeout)
	a := verifClientAddr(0)
	touchAfter := verifapi.Concrete(verifapi.Choice("sweeps before the touch", 3))
	var q chan []byte
	lastSeen := int64(-1)
	for sweep := 0; sweep <= 6; sweep++ {
		d := <-verifSleepReq17 // the sweeper has finished sweep number `sweep` and wants to sleep
		wakeAt := verifClock17 + d
		if lastSeen >= 0 {
			idle := verifClock17 - lastSeen
			if idle < timeout {
				verifapi.Assert(!verifQueueClosed(q), "a client's queue is never discarded before it has been idle for the full timeout")
			}
			if wakeAt > lastSeen+timeout+timeout/2 {
				verifapi.Cover("deadline reached")
				verifapi.Assert(verifQueueClosed(q), "an idle client's queue is discarded and closed by the last sweep before one and a half timeouts have passed")
				return
			}
		}
		if sweep == touchAfter {
			verifClock17++ // one nanosecond after the sweep (or after creation)
			q = m.SendQueue(a)
			lastSeen = verifClock17
		}
		verifClock17 = wakeAt
		verifWake17 <- struct{}{}
	}
	verifapi.Assert(false, "the scenario ends at the deadline")
}

// ---- (a'') packets handed over by the redial read pump do not alias each other ------------------
//
// A carrier delivers two packets before anybody reads; both must still be what the carrier
// delivered when they are read later (each queued packet is a private copy).

type verifTwoPacketCarrier struct {
	reads  int
	closed chan struct{}
	done   bool
}

func (c *verifTwoPacketCarrier) ReadFrom(p []byte) (int, net.Addr, error) {
	c.reads++
	if c.reads <= 2 {
		p[0], p[1] = byte(c.reads), byte(10*c.reads)
		return 2, verifAddr{}, nil
	}
	<-c.closed
	return 0, nil, verifErrCarrier
}
func (c *verifTwoPacketCarrier) WriteTo(p []byte, a net.Addr) (int, error) { return len(p), nil }
func (c *verifTwoPacketCarrier) Close() error {
	if !c.done {
		c.done = true
		close(c.closed)
	}
	return nil
}
func (c *verifTwoPacketCarrier) LocalAddr() net.Addr                { return verifAddr{} }
func (c *verifTwoPacketCarrier) SetDeadline(t time.Time) error      { return nil }
func (c *verifTwoPacketCarrier) SetReadDeadline(t time.Time) error  { return nil }
func (c *verifTwoPacketCarrier) SetWriteDeadline(t time.Time) error { return nil }

func VerifC17_RedialNoAlias() {
	stop := make(chan struct{})
	dials := 0
	dial := func(ctx context.Context) (net.PacketConn, error) {
		dials++
		if dials == 1 {
			return &verifTwoPacketCarrier{closed: make(chan struct{})}, nil
		}
		<-stop
		return nil, verifErrCarrier
	}
	c := NewRedialPacketConn(verifAddr{}, verifAddr{}, dial)
	verifapi.Quiesce() // both packets are queued, nobody has read yet
	var buf [4]byte
	for k := 1; k <= 2; k++ {
		n, _, err := c.ReadFrom(buf[:])
		verifapi.Assert(err == nil && n == 2, "a queued packet is read")
		verifapi.Assert(buf[0] == byte(k) && buf[1] == byte(10*k), "a queued packet still has the bytes the carrier delivered: packets handed over earlier are not overwritten by later reads")
	}
	verifapi.Cover("two queued packets read")
	c.Close()
	close(stop)
	verifapi.Quiesce()
}
