package snowflake_client

// C09 (call site): the client's packet adapter over the encapsulation layer - packets written
// are read back one by one however the carrier coalesces or fragments the bytes.

import (
	"io"

	"git.torproject.org/pluggable-transports/snowflake.git/v2/internal/verifapi"
)

// a carrier that hands out its bytes in solver-chosen fragments (possibly several packets in
// one read, possibly one byte at a time) and records what is written to it
type verifStream struct {
	in    []byte
	pos   int
	out   []byte
	reads int
}

func (s *verifStream) Read(p []byte) (int, error) {
	rem := len(s.in) - s.pos
	if rem == 0 {
		return 0, io.EOF
	}
	s.reads++
	verifapi.Assume(s.reads <= verifapi.Param("reads", 8))
	n := [3]int{1, 2, 8}[verifapi.Concrete(verifapi.Choice("read.n", 3))]
	if n > rem {
		n = rem
	}
	if n > len(p) {
		n = len(p)
	}
	copy(p, s.in[s.pos:s.pos+n])
	s.pos += n
	return n, nil
}
func (s *verifStream) Write(p []byte) (int, error) { s.out = append(s.out, p...); return len(p), nil }
func (s *verifStream) Close() error                { return nil }

func VerifC09_PacketConn() {
	// write the packets through the real adapter - lengths 0, 1 or 3: the empty packet included
	// (an empty datagram is a packet like any other) ...
	w := &verifStream{}
	cw := newEncapsulationPacketConn(nil, nil, w)
	pk := make([][]byte, verifapi.Param("packets", 2))
	total := 0
	for i := range pk {
		ln := [3]int{0, 1, 3}[verifapi.Concrete(verifapi.Choice("len", 3))]
		pk[i] = make([]byte, ln)
		for j := range pk[i] {
			pk[i][j] = byte(16*i + j)
		}
		if ln > 0 {
			pk[i][0] = verifapi.Uint8("first byte")
		}
		n, err := cw.WriteTo(pk[i], nil)
		verifapi.Assert(err == nil && n == ln, "a packet is written whole")
		total += 1 + ln
		verifapi.Assert(len(w.out) == total, "each packet, also an empty one, is framed with its length prefix and flushed")
	}
	// ... and read them back from a carrier that fragments / coalesces arbitrarily
	r := &verifStream{in: w.out}
	cr := newEncapsulationPacketConn(nil, nil, r)
	var buf [16]byte
	for i := range pk {
		// the caller's buffer is roomy, or exactly as long as the packet (an exact fit is whole)
		rb := buf[:]
		if len(pk[i]) > 0 && verifapi.Bool("exact-fit buffer") {
			rb = buf[:len(pk[i])]
		}
		k, _, err := cr.ReadFrom(rb)
		verifapi.Assert(err == nil && k == len(pk[i]), "every packet is read back whole and in order, whatever the carrier's read boundaries: bytes delivered together with an earlier packet are not lost")
		for j := range pk[i] {
			verifapi.Assert(buf[j] == pk[i][j], "a packet has its original bytes")
		}
	}
	verifapi.Cover("packets read back")
	_, _, err := cr.ReadFrom(buf[:])
	verifapi.Assert(err == io.EOF, "end of stream after the last packet")
}
