package snowflake_client

// C09 (call site): the client's packet adapter over the encapsulation layer - packets written
// are read back one by one however the carrier coalesces or fragments the bytes.

import (
	"io"

	"git.torproject.org/pluggable-transports/snowflake.git/v2/internal/verifapi"
)

// a carrier that hands out its bytes in solver-chosen fragments (possibly several packets in
// one read, possibly one byte at a time) and records what is written to it
type verifStream struct {
	in    []byte
	pos   int
	out   []byte
	reads int
}

func (s *verifStream) Read(p []byte) (int, error) {
	rem := len(s.in) - s.pos
	if rem == 0 {
		return 0, io.EOF
	}
	s.reads++
	verifapi.Assume(s.reads <= verifapi.Param("reads", 8))
	n := [5]int{1, 2, 3, 5, 7}[verifapi.Concrete(verifapi.Choice("read.n", 5))]
	if n > rem {
		n = rem
	}
	if n > len(p) {
		n = len(p)
	}
	copy(p, s.in[s.pos:s.pos+n])
	s.pos += n
	return n, nil
}
func (s *verifStream) Write(p []byte) (int, error) { s.out = append(s.out, p...); return len(p), nil }
func (s *verifStream) Close() error                { return nil }

func VerifC09_PacketConn() {
	// write two packets through the real adapter ...
	w := &verifStream{}
	cw := newEncapsulationPacketConn(nil, nil, w)
	p0 := []byte{verifapi.Uint8("p0"), 0x01, 0x02}
	p1 := []byte{verifapi.Uint8("p1"), 0x03}
	n, err := cw.WriteTo(p0, nil)
	verifapi.Assert(err == nil && n == 3, "a packet is written whole")
	n, err = cw.WriteTo(p1, nil)
	verifapi.Assert(err == nil && n == 2, "a packet is written whole")
	verifapi.Assert(len(w.out) == 7, "each packet is framed with its length prefix and flushed")
	// ... and read them back from a carrier that fragments / coalesces arbitrarily
	r := &verifStream{in: w.out}
	cr := newEncapsulationPacketConn(nil, nil, r)
	var buf [16]byte
	k, _, err := cr.ReadFrom(buf[:])
	verifapi.Cover("first packet read")
	verifapi.Assert(err == nil && k == 3, "the first packet is read back whole, whatever the carrier's read boundaries")
	verifapi.Assert(buf[0] == p0[0] && buf[1] == 0x01 && buf[2] == 0x02, "the first packet has its original bytes")
	k, _, err = cr.ReadFrom(buf[:])
	verifapi.Cover("second packet read")
	verifapi.Assert(err == nil && k == 2, "the second packet is read back whole: bytes delivered together with the first packet are not lost")
	verifapi.Assert(buf[0] == p1[0] && buf[1] == 0x03, "the second packet has its original bytes")
	_, _, err = cr.ReadFrom(buf[:])
	verifapi.Assert(err == io.EOF, "end of stream after the last packet")
}
