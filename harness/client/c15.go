package snowflake_client

// C15: the client bounds its peers, survives failed rendezvous and always shuts down.

import (
	"errors"
	"io"
	"net"
	"time"

	"github.com/pion/webrtc/v3"
	"github.com/xtaci/smux"

	"git.torproject.org/pluggable-transports/snowflake.git/v2/common/event"
	"git.torproject.org/pluggable-transports/snowflake.git/v2/internal/verifapi"
)

var verifErr15 = errors.New("stub failure")

// ---- a harness Tongue --------------------------------------------------------------------

type verifTongue struct {
	max     int
	caught  [6]*WebRTCPeer
	n       int
	catches int
	slow    bool // Catch passes a scheduling point (a rendezvous takes time)
	peers   *Peers
}

func (t *verifTongue) GetMax() int { return t.max }
func (t *verifTongue) live() int {
	k := 0
	for i := 0; i < t.n; i++ {
		if !t.caught[i].Closed() {
			k++
		}
	}
	return k
}
func (t *verifTongue) Catch() (*WebRTCPeer, error) {
	t.catches++
	verifapi.Assert(t.live() < t.max, "a new peer is only collected while fewer than the maximum are live")
	if t.slow {
		verifapi.Yield()
	}
	if verifapi.Bool("catch.fails") {
		return nil, verifErr15
	}
	p := &WebRTCPeer{closed: make(chan struct{})}
	t.caught[t.n] = p
	t.n++
	return p, nil
}

// VerifC15_StaleSpare (sequential): spare peers go stale while queued, more are collected,
// the data path pops, the connection is closed twice.
func VerifC15_StaleSpare() {
	t := &verifTongue{max: verifapi.Concrete(verifapi.Choice("max", 2)) + 1}
	p, err := NewPeers(t)
	verifapi.Assert(err == nil, "NewPeers succeeds")
	t.peers = p
	steps := verifapi.Param("steps", 4)
	ended := false
	for s := 0; s < steps; s++ {
		switch verifapi.Concrete(verifapi.Choice("op", 4)) {
		case 0: // collect (a failure to obtain a peer is reported, never fatal)
			if !ended && len(p.snowflakeChan) == cap(p.snowflakeChan) && t.live() < t.max {
				// the hand-over queue is full of spares that have since closed: Collect waits
				// for the data path to pop them (or for End) - the concurrent scenario
				// VerifC15_EndWithCloggedQueue covers that wait
				continue
			}
			before := t.catches
			c, err := p.Collect()
			verifapi.Assert((c == nil) != (err == nil), "Collect returns a peer or an error")
			if ended {
				verifapi.Cover("collect after End")
				verifapi.Assert(err != nil, "Collect after End fails")
				verifapi.Assert(t.catches == before, "no rendezvous attempt is made after End")
			}
			verifapi.Assert(t.live() <= t.max, "never more than the configured maximum of live peers")
		case 1: // a queued or active peer closes on its own (staleness, remote close)
			if t.n > 0 {
				t.caught[verifapi.Concrete(verifapi.Choice("which", 6))%t.n].Close()
			}
		case 2: // the data path takes a peer (only when one is queued: Pop blocks otherwise by design)
			if len(p.snowflakeChan) > 0 || ended {
				queuedLive := false
				if !ended {
					// Pop blocks if every queued peer is closed and the channel is open: skip that case
					for i := 0; i < t.n; i++ {
						_ = i
					}
				}
				_ = queuedLive
				if ended || verifAnyQueuedLive(p, t) {
					got := p.Pop()
					if got != nil {
						verifapi.Cover("pop returned a peer")
						verifapi.Assert(!got.Closed(), "a peer that is already closed is never handed to the data path")
					}
				}
			}
		case 3:
			p.End()
			if ended {
				verifapi.Cover("second End")
			}
			ended = true
			for i := 0; i < t.n; i++ {
				verifapi.Assert(t.caught[i].Closed(), "End closes every peer the connection holds")
			}
		}
	}
}

// the queue is a buffered channel: peek by draining and refilling is not possible without
// disturbing it, so the harness mirrors which caught peers are still queued: every caught peer
// is queued until popped; popped peers are marked through bytesLogger being set by Pop.
func verifAnyQueuedLive(p *Peers, t *verifTongue) bool {
	n := len(p.snowflakeChan)
	// the queued peers are the last n caught peers that were not popped; Pop marks the peer it
	// returns by assigning bytesLogger, and skips closed ones (consuming them)
	live := false
	for i := 0; i < n; i++ {
		q := <-p.snowflakeChan
		if !q.Closed() {
			live = true
		}
		p.snowflakeChan <- q // rotate: order is preserved after n rotations
	}
	return live
}

// VerifC15_EndRacesCollect (concurrent): Close/End at any moment while a peer is being
// collected; everything returns, every peer is closed, nothing is collected afterwards.
func VerifC15_EndRacesCollect() {
	t := &verifTongue{max: verifapi.Concrete(verifapi.Choice("max", 2)) + 1, slow: true}
	p, _ := NewPeers(t)
	collectDone, endDone, end2Done := false, false, false
	go func() {
		p.Collect()
		p.Collect()
		collectDone = true
	}()
	go func() {
		p.End()
		endDone = true
	}()
	if verifapi.Bool("closeTwice") {
		go func() {
			p.End()
			end2Done = true
		}()
	} else {
		end2Done = true
	}
	verifapi.Quiesce()
	verifapi.Cover("end/collect quiescent")
	verifapi.Assert(endDone, "Close returns in bounded time")
	verifapi.Assert(end2Done, "a repeated Close returns in bounded time")
	verifapi.Assert(collectDone, "a Collect in flight completes")
	for i := 0; i < t.n; i++ {
		verifapi.Assert(t.caught[i].Closed(), "End closes every peer, also one collected concurrently")
	}
	before := t.catches
	_, err := p.Collect()
	verifapi.Assert(err != nil && t.catches == before, "no rendezvous attempt after End")
}

// VerifC15_EndWithCloggedQueue (concurrent): spare peers went stale while queued, a further
// Collect is waiting for room in the hand-over queue, and the connection is closed.
func VerifC15_EndWithCloggedQueue() {
	t := &verifTongue{max: 1}
	p, _ := NewPeers(t)
	a, err := p.Collect()
	verifapi.Assume(err == nil)
	a.Close() // the spare goes stale before anyone pops it
	collectDone, endDone := false, false
	go func() {
		p.Collect()
		collectDone = true
	}()
	go func() {
		p.End()
		endDone = true
	}()
	verifapi.Quiesce()
	verifapi.Cover("clogged queue quiescent")
	verifapi.Assert(endDone, "Close returns in bounded time after spare peers have gone stale")
	verifapi.Assert(collectDone, "the Collect in flight completes")
	for i := 0; i < t.n; i++ {
		verifapi.Assert(t.caught[i].Closed(), "End closes every peer it holds")
	}
}

// ---- connectLoop ---------------------------------------------------------------------------

type verifCollector struct {
	melt     chan struct{}
	collects int
	melted   bool
	atMelt   int
}

func (c *verifCollector) Collect() (*WebRTCPeer, error) {
	c.collects++
	// fairness: the reconnect timer is 10 s, so the loop cannot spin past a closed Melted()
	// channel for ever; the model bounds the number of iterations instead
	verifapi.Assume(c.collects <= 3)
	return nil, verifErr15
}
func (c *verifCollector) Pop() *WebRTCPeer        { return nil }
func (c *verifCollector) Melted() <-chan struct{} { return c.melt }

func VerifC15_ConnectLoop() {
	c := &verifCollector{melt: make(chan struct{})}
	done := false
	go func() {
		connectLoop(c)
		done = true
	}()
	go func() {
		c.atMelt = c.collects
		c.melted = true
		close(c.melt)
	}()
	verifapi.Quiesce()
	verifapi.Cover("connectLoop quiescent")
	verifapi.Assert(done, "the connect loop stops after the connection is closed")
}

// ---- a failed attempt to obtain a peer never terminates the process ---------------------------

type verifEvents struct{}

// what the client binary's PT event logger does with every event: it renders it (pt.Log(..., e.String()));
// an event that cannot be rendered panics on the connect loop's goroutine and kills the client
func (verifEvents) OnNewSnowflakeEvent(e event.SnowflakeEvent) {
	verifEventsSeen++
	_ = e.String()
}

var verifEventsSeen int

func verifScrub15(b []byte) []byte { return b }

var (
	verifPC        *webrtc.PeerConnection
	verifPCCloses  int
	verifDC        *webrtc.DataChannel
	verifOnOpen    func()
	verifDCOpens   bool
	verifStaleness int
)

func verifNewPeerConnection(api *webrtc.API, cfg webrtc.Configuration) (*webrtc.PeerConnection, error) {
	if verifapi.Bool("NewPeerConnection.fails") { // e.g. an ICE configuration pion rejects
		return nil, verifErr15
	}
	verifPC = new(webrtc.PeerConnection)
	return verifPC, nil
}
func verifCreateDataChannel(pc *webrtc.PeerConnection, label string, o *webrtc.DataChannelInit) (*webrtc.DataChannel, error) {
	if verifapi.Bool("CreateDataChannel.fails") {
		return nil, verifErr15
	}
	verifDC = new(webrtc.DataChannel)
	return verifDC, nil
}
func verifDCOnOpen(dc *webrtc.DataChannel, f func())                             { verifOnOpen = f }
func verifDCOnClose(dc *webrtc.DataChannel, f func())                            {}
func verifDCOnError(dc *webrtc.DataChannel, f func(error))                       {}
func verifDCOnMessage(dc *webrtc.DataChannel, f func(webrtc.DataChannelMessage)) {}
func verifDCClose(dc *webrtc.DataChannel) error                                  { return nil }
func verifPCClose15(pc *webrtc.PeerConnection) error                             { verifPCCloses++; return nil }
func verifGathering(pc *webrtc.PeerConnection) <-chan struct{} {
	ch := make(chan struct{})
	close(ch)
	return ch
}
func verifCreateOffer(pc *webrtc.PeerConnection, o *webrtc.OfferOptions) (webrtc.SessionDescription, error) {
	if verifapi.Bool("CreateOffer.fails") {
		return webrtc.SessionDescription{}, verifErr15
	}
	return webrtc.SessionDescription{Type: webrtc.SDPTypeOffer, SDP: "offer"}, nil
}
func verifSetLocal(pc *webrtc.PeerConnection, d webrtc.SessionDescription) error {
	if verifapi.Bool("SetLocalDescription.fails") {
		return verifErr15
	}
	return nil
}
func verifLocalDescription(pc *webrtc.PeerConnection) *webrtc.SessionDescription {
	return &webrtc.SessionDescription{Type: webrtc.SDPTypeOffer, SDP: "offer"}
}
func verifNegotiate(bc *BrokerChannel, offer *webrtc.SessionDescription) (*webrtc.SessionDescription, error) {
	if verifapi.Bool("rendezvous.fails") { // broker unreachable or refusing, malformed answer
		return nil, verifErr15
	}
	return &webrtc.SessionDescription{Type: webrtc.SDPTypeAnswer, SDP: "answer"}, nil
}
func verifSetRemote(pc *webrtc.PeerConnection, d webrtc.SessionDescription) error {
	if verifapi.Bool("SetRemoteDescription.fails") {
		return verifErr15
	}
	if verifapi.Bool("datachannel.opens") {
		verifDCOpens = true
		verifOnOpen()
	}
	return nil
}
func verifAfter15(d time.Duration) <-chan time.Time {
	ch := make(chan time.Time, 1)
	if !verifDCOpens {
		ch <- time.Time{} // the data channel never opens: the timeout fires
	}
	return ch
}
func verifStale(c *WebRTCPeer, timeout time.Duration) { verifStaleness++ }

func VerifC15_FailedRendezvous() {
	cfg := &webrtc.Configuration{}
	peer, err := NewWebRTCPeerWithEvents(cfg, &BrokerChannel{}, verifEvents{})
	verifapi.Cover("attempt returned")
	verifapi.Assert((peer == nil) != (err == nil), "an attempt to obtain a peer returns a peer or an error")
	if err != nil {
		verifapi.Cover("attempt failed")
		if verifPC != nil {
			verifapi.Assert(verifPCCloses >= 1, "a half-built peer is torn down when the attempt fails")
		}
	} else {
		verifapi.Cover("attempt succeeded")
		verifapi.Assert(verifDCOpens, "a peer is only returned once its data channel opened")
		verifapi.Assert(!peer.Closed(), "a returned peer is open")
	}
}

// ---- SnowflakeConn.Close: every part is shut down whatever the other parts report ---------------

var (
	verifStreamClosed, verifSessClosed, verifPconnClosed int
)

func verifStreamClose(s *smux.Stream) error {
	verifStreamClosed++
	if verifapi.Bool("stream.closeFails") { // e.g. the session already died on its own
		return io.ErrClosedPipe
	}
	return nil
}
func verifSessClose(s *smux.Session) error {
	verifSessClosed++
	if verifapi.Bool("session.closeFails") {
		return io.ErrClosedPipe
	}
	return nil
}
func verifStreamID(s *smux.Stream) uint32 { return 1 }

type verifPacketConn struct{ net.PacketConn }

func (verifPacketConn) Close() error {
	verifPconnClosed++
	if verifapi.Bool("pconn.closeFails") {
		return io.ErrClosedPipe
	}
	return nil
}

func VerifC15_ConnClose() {
	t := &verifTongue{max: 1}
	p, _ := NewPeers(t)
	a, err := p.Collect()
	verifapi.Assume(err == nil)
	conn := &SnowflakeConn{Stream: new(smux.Stream), sess: new(smux.Session), pconn: verifPacketConn{}, snowflakes: p}
	conn.Close()
	verifapi.Cover("connection closed")
	melted := false
	select {
	case <-p.Melted():
		melted = true
	default:
	}
	verifapi.Assert(melted, "closing the connection stops the collection of peers, whatever the stream or session report")
	verifapi.Assert(a.Closed(), "closing the connection closes every peer it holds")
	before := t.catches
	_, err = p.Collect()
	verifapi.Assert(err != nil && t.catches == before, "no further rendezvous attempt after the connection was closed")
	if verifapi.Bool("closeAgain") {
		conn.Close()
		verifapi.Cover("connection closed twice")
	}
}

// ---- a peer that is being torn down is not handed to the data path ----------------------------
//
// A queued peer closes on its own (staleness, remote close); closing a live PeerConnection
// takes time. A Pop that starts while that teardown is in progress must skip the dying peer
// and hand over the healthy spare.

var (
	verifTearing = make(chan bool)
	verifResume  = make(chan bool)
)

func verifPCCloseSlow(pc *webrtc.PeerConnection) error {
	verifTearing <- true // the teardown has reached pc.Close()
	<-verifResume
	return nil
}

func VerifC15_PopDuringTeardown() {
	t := &verifTongue{max: 2}
	p, _ := NewPeers(t)
	a, err := p.Collect()
	verifapi.Assume(err == nil)
	b, err := p.Collect()
	verifapi.Assume(err == nil)
	a.pc = new(webrtc.PeerConnection)
	go func() { a.Close() }()
	<-verifTearing
	got := p.Pop()
	close(verifResume)
	verifapi.Quiesce()
	verifapi.Cover("pop during a teardown")
	verifapi.Assert(got != a, "a peer whose teardown is in progress is never handed to the data path")
	verifapi.Assert(got == b, "the healthy spare is handed over instead")
}

// ---- connectLoop keeps retrying -------------------------------------------------------------
//
// "A failed rendezvous ... is reported and retried later": every failed attempt is followed by
// another one once the reconnect timer has fired, for as long as the connection is open. Here
// the connection is closed by the third attempt itself.

type verifRetryCollector struct {
	melt     chan struct{}
	collects int
}

func (c *verifRetryCollector) Collect() (*WebRTCPeer, error) {
	c.collects++
	// fairness: once the connection is closed the loop cannot prefer its (10 s) timer for ever
	verifapi.Assume(c.collects <= 5)
	if c.collects == 3 {
		close(c.melt) // the connection is closed while the third attempt is under way
	}
	return nil, verifErr15
}
func (c *verifRetryCollector) Pop() *WebRTCPeer        { return nil }
func (c *verifRetryCollector) Melted() <-chan struct{} { return c.melt }

func VerifC15_ConnectLoopRetries() {
	c := &verifRetryCollector{melt: make(chan struct{})}
	done := false
	go func() {
		connectLoop(c)
		done = true
	}()
	verifapi.Quiesce() // every timer that was started has fired, nothing can move any more
	verifapi.Cover("connectLoop retried")
	verifapi.Assert(c.collects >= 3, "after a failed attempt the connect loop tries again once the reconnect timer has fired - every time, not just the first")
	verifapi.Assert(done, "the connect loop stops after the connection is closed")
}
