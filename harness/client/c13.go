package snowflake_client

// C13, the caller on the untrusted path (client side): whatever the broker relays as the
// proxy's answer, BrokerChannel.Negotiate returns a description or an error and never panics.

import (
	"errors"

	"github.com/pion/webrtc/v3"

	"git.torproject.org/pluggable-transports/snowflake.git/v2/common/messages"
	"git.torproject.org/pluggable-transports/snowflake.git/v2/internal/verifapi"
)

var verifErr13 = errors.New("stub error")

type verifRendezvous13 struct{}

func (r *verifRendezvous13) Exchange(b []byte) ([]byte, error) {
	if verifapi.Bool("exchange.fails") {
		return nil, verifErr13
	}
	return []byte("resp"), nil
}

func verifDeserialize13(msg string) (*webrtc.SessionDescription, error) {
	if verifapi.Bool("deserialize.fails") {
		verifapi.Cover("the answer does not deserialise")
		return nil, verifErr13
	}
	return &webrtc.SessionDescription{Type: webrtc.SDPTypeAnswer, SDP: "sdp"}, nil
}
func verifSerialize13(d *webrtc.SessionDescription) (string, error) {
	if verifapi.Bool("serialize.fails") {
		return "", verifErr13
	}
	return "serialized", nil
}

// what the broker sent, after the (separately checked) message decoder: an error, or a
// response whose members are arbitrary
func verifDecodeClientPollResponse13(data []byte) (*messages.ClientPollResponse, error) {
	if verifapi.Bool("decode.fails") {
		return nil, verifErr13
	}
	return &messages.ClientPollResponse{Answer: verifapi.String("remote.answer", 2), Error: verifapi.String("remote.error", 2)}, nil
}
func verifEncodeClientPollRequest13(req *messages.ClientPollRequest) ([]byte, error) {
	if verifapi.Bool("encode.fails") {
		return nil, verifErr13
	}
	return []byte("req"), nil
}

func VerifC13_Negotiate() {
	bc := &BrokerChannel{Rendezvous: &verifRendezvous13{}, keepLocalAddresses: verifapi.Bool("keepLocal"), natType: "unknown"}
	answer, err := bc.Negotiate(&webrtc.SessionDescription{Type: webrtc.SDPTypeOffer, SDP: "v=0"})
	verifapi.Cover("Negotiate returned")
	verifapi.Assert((answer == nil) != (err == nil), "Negotiate returns an answer or an error")
	if err == nil {
		verifapi.Cover("Negotiate returned an answer")
	}
}
