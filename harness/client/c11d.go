package snowflake_client

// C11: the transport the rendezvous uses.  "With a front configured the client connects to the
// front": a transport that consults a proxy function (net/http's default takes one from the
// environment) dials the proxy instead, and for plain http hands it the broker's name.

import (
	"net/http"
	"net/url"

	"git.torproject.org/pluggable-transports/snowflake.git/v2/internal/verifapi"
)

// (*http.Transport).Clone as documented: a copy of the exported fields
func verifTransportClone(t *http.Transport) *http.Transport {
	return &http.Transport{Proxy: t.Proxy, ResponseHeaderTimeout: t.ResponseHeaderTimeout, DialContext: t.DialContext,
		TLSClientConfig: t.TLSClientConfig, MaxIdleConns: t.MaxIdleConns, IdleConnTimeout: t.IdleConnTimeout,
		TLSHandshakeTimeout: t.TLSHandshakeTimeout, ExpectContinueTimeout: t.ExpectContinueTimeout, ForceAttemptHTTP2: t.ForceAttemptHTTP2}
}

func verifEnvProxy(*http.Request) (*url.URL, error) { return &url.URL{Host: "proxy.example"}, nil }

func VerifC11_BrokerTransport() {
	// what net/http sets up: the default transport takes its proxy from the environment
	dt, ok := http.DefaultTransport.(*http.Transport)
	verifapi.Assert(ok && dt != nil, "net/http's default transport")
	dt.Proxy = verifEnvProxy
	rt := createBrokerTransport()
	verifapi.Cover("transport created")
	verifapi.Assert(rt != nil, "a transport is created")
	if t, isT := rt.(*http.Transport); isT {
		verifapi.Cover("an http.Transport")
		if t.Proxy != nil {
			u, err := t.Proxy(&http.Request{URL: &url.URL{Scheme: "http", Host: "front.example"}})
			verifapi.Assert(err == nil && u == nil, "the broker transport dials the front itself: it uses no proxy, whatever the environment says")
		}
	}
}
