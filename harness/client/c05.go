package snowflake_client

// C05, the client's side of the carrier protocol: every carrier a session dials starts with the
// turbotunnel token followed by the session's ClientID - the same ClientID on every redial -
// and nothing else before the first packet; a carrier that cannot be obtained or written to is
// reported as a dial error, not used.

import (
	"context"
	"errors"
	"io"
	"net"

	"github.com/xtaci/kcp-go/v5"
	"github.com/xtaci/smux"

	"git.torproject.org/pluggable-transports/snowflake.git/v2/common/turbotunnel"
	"git.torproject.org/pluggable-transports/snowflake.git/v2/internal/verifapi"
)

type verifCarrier05 struct {
	out    []byte
	failAt int // the Write call that fails (0 = none)
	writes int
}

func (c *verifCarrier05) write(p []byte) (int, error) {
	c.writes++
	if c.writes == c.failAt {
		return 0, errors.New("carrier write failed (stub)")
	}
	c.out = append(c.out, p...)
	return len(p), nil
}

type verifCollector05 struct{}

func (s *verifCollector05) Collect() (*WebRTCPeer, error) { return nil, errors.New("unused") }
func (s *verifCollector05) Pop() *WebRTCPeer              { return verifPeer05 }
func (s *verifCollector05) Melted() <-chan struct{}       { return nil }

var (
	verifDial05    func(ctx context.Context) (net.PacketConn, error)
	verifPeer05    *WebRTCPeer
	verifCurrent05 *verifCarrier05
)

// redirect stubs
func verifNewRedial05(localAddr, remoteAddr net.Addr, dial func(ctx context.Context) (net.PacketConn, error)) *turbotunnel.RedialPacketConn {
	verifDial05 = dial
	return new(turbotunnel.RedialPacketConn)
}
func verifNewConn2(raddr net.Addr, block kcp.BlockCrypt, dataShards, parityShards int, conn net.PacketConn) (*kcp.UDPSession, error) {
	return new(kcp.UDPSession), nil
}
func verifSmuxClient05(conn io.ReadWriteCloser, config *smux.Config) (*smux.Session, error) {
	verifapi.Assert(config != nil && config.KeepAliveTimeout >= 60e9, "C05: the client's session layer tolerates silence for at least the server's carrier retention time (one minute)")
	return new(smux.Session), nil
}
func verifPeerWrite05(p *WebRTCPeer, b []byte) (int, error) { return verifCurrent05.write(b) }

func VerifC05_ClientPreamble() {
	_, _, err := newSession(&verifCollector05{})
	verifapi.Assert(err == nil && verifDial05 != nil, "a session is set up over a redialing packet conn")
	var ids [2][]byte
	for i := 0; i < 2; i++ { // two carriers of the session, one after the other
		c := &verifCarrier05{failAt: verifapi.Concrete(verifapi.Choice("write fails", 3))}
		verifCurrent05 = c
		verifPeer05 = new(WebRTCPeer)
		if verifapi.Bool("no snowflake") {
			verifPeer05 = nil
		}
		pc, derr := verifDial05(context.Background())
		if verifPeer05 == nil || c.failAt != 0 {
			verifapi.Cover("carrier unusable")
			verifapi.Assert(derr != nil && pc == nil, "a carrier that cannot be obtained or written to is a dial error")
			return
		}
		verifapi.Assert(derr == nil && pc != nil, "a carrier is dialled")
		verifapi.Assert(len(c.out) == len(turbotunnel.Token)+8, "C05: a carrier starts with the token and the ClientID and nothing else before the first packet")
		for k := range turbotunnel.Token {
			verifapi.Assert(c.out[k] == turbotunnel.Token[k], "C05: every carrier starts with the turbotunnel token")
		}
		ids[i] = c.out[len(turbotunnel.Token):]
	}
	verifapi.Cover("two carriers dialled")
	for k := 0; k < 8; k++ {
		verifapi.Assert(ids[0][k] == ids[1][k], "C05: every carrier of a session presents the same ClientID")
	}
}
