package snowflake_client

// C11 (b), (c): bounded reads and domain fronting in the client's rendezvous methods.

import (
	"errors"
	"io"
	"net/http"
	"net/url"

	"git.torproject.org/pluggable-transports/snowflake.git/v2/internal/verifapi"
)

// a body of a chosen size served in arbitrary-size reads
type verifBody struct {
	n, pos int
	closed bool
	full   bool // serve as much as asked (keeps 100 KB bodies cheap)
}

func (b *verifBody) Read(p []byte) (int, error) {
	if b.pos >= b.n {
		return 0, io.EOF
	}
	k := len(p)
	if k > b.n-b.pos {
		k = b.n - b.pos
	}
	if !b.full && k > 1 && verifapi.Bool("body.shortRead") {
		k = 1
	}
	for i := 0; i < k && i < 8; i++ {
		p[i] = byte(b.pos + i)
	}
	b.pos += k
	return k, nil
}
func (b *verifBody) Close() error { b.closed = true; return nil }

// VerifC11_LimitedRead: a body within the limit is returned whole; a longer one is an error.
func VerifC11_LimitedRead() {
	limit := verifapi.Concrete(verifapi.Choice("limit", 5))
	size := verifapi.Concrete(verifapi.Choice("size", 8))
	b := &verifBody{n: size}
	p, err := limitedRead(b, int64(limit))
	if size <= limit {
		verifapi.Cover("body within the limit")
		verifapi.Assert(err == nil, "a body within the limit is read without error")
		verifapi.Assert(len(p) == size, "a body within the limit is returned whole")
	} else {
		verifapi.Cover("body beyond the limit")
		verifapi.Assert(err != nil, "a body beyond the limit is reported as an error, never as truncated data")
	}
}

// ---- Exchange: fronting, status, limit --------------------------------------------------------

type verifTransport struct {
	sawURLHost, sawHost, sawMethod string
	sawPath                        string
	calls                          int
	failed                         bool
	status                         int
	body                           *verifBody
}

func (t *verifTransport) RoundTrip(req *http.Request) (*http.Response, error) {
	t.calls++
	t.sawURLHost, t.sawHost, t.sawMethod = req.URL.Host, req.Host, req.Method
	t.sawPath = req.URL.Path
	if verifapi.Bool("transport.fails") {
		t.failed = true
		return nil, errors.New("transport failure (stub)")
	}
	return &http.Response{StatusCode: t.status, Status: "status", Body: t.body}, nil
}

var verifLastURL *url.URL

// RFC 3986 §5.2 as far as the callers need it: a reference that is an absolute path replaces
// the base's path, a relative one replaces what follows the base path's last slash
func verifResolveReference(u *url.URL, ref *url.URL) *url.URL {
	p := ref.Path
	if len(p) == 0 || p[0] != '/' {
		dir := u.Path
		for len(dir) > 0 && dir[len(dir)-1] != '/' {
			dir = dir[:len(dir)-1]
		}
		if dir == "" {
			dir = "/"
		}
		p = dir + p
	}
	verifLastURL = &url.URL{Scheme: u.Scheme, Host: u.Host, Path: p}
	return verifLastURL
}
func verifURLString11(u *url.URL) string { verifLastURL = u; return "url-string" }
func verifNewRequest(method, urlStr string, body io.Reader) (*http.Request, error) {
	if verifapi.Bool("NewRequest.fails") {
		return nil, errors.New("bad request (stub)")
	}
	// net/http: the request's Host defaults to the URL's host
	u := &url.URL{Scheme: verifLastURL.Scheme, Host: verifLastURL.Host, Path: verifLastURL.Path}
	return &http.Request{Method: method, URL: u, Host: u.Host, Header: http.Header{}}, nil
}
func verifCacheURL(pub, cache *url.URL, contentType string) (*url.URL, error) {
	if verifapi.Bool("CacheURL.fails") {
		return nil, errors.New("cache url (stub)")
	}
	return &url.URL{Scheme: cache.Scheme, Host: "prefix." + cache.Host, Path: "/c/s/" + pub.Host + pub.Path}, nil
}
func verifEncodePath(data []byte) string { return "0pad/data" }

// the armor decoder, as far as Exchange can tell: a reader that consumes the (limited) body
// and yields the decoded poll response, or fails
var verifDecFailed, verifBadVersion, verifHasLocation bool

type verifDec struct {
	src  io.Reader
	done bool
	fail bool
}

func (d *verifDec) Read(p []byte) (int, error) {
	if d.done {
		return 0, io.EOF
	}
	var buf [4096]byte
	for {
		_, err := d.src.Read(buf[:])
		if err != nil {
			break
		}
	}
	d.done = true
	if d.fail {
		verifDecFailed = true
		return 0, errors.New("armor decoding failed (stub)")
	}
	p[0] = 'R'
	return 1, nil
}
func verifNewArmorDecoder(r io.Reader) (io.Reader, error) {
	if verifapi.Bool("armor.badVersion") {
		verifBadVersion = true
		return nil, errors.New("unknown armor version (stub)")
	}
	return &verifDec{src: r, fail: verifapi.Bool("armor.fails")}, nil
}
func verifLocation(r *http.Response) (*url.URL, error) {
	if verifapi.Bool("response.hasLocation") {
		verifHasLocation = true
		return &url.URL{}, nil
	}
	return nil, http.ErrNoLocation
}

var verifSizes = [4]int{0, 3, 100000, 100001}

func verifFrontingOracle(t *verifTransport, front, origHost string) {
	if t.calls == 0 {
		return
	}
	verifapi.Cover("request reached the transport")
	if front != "" {
		verifapi.Assert(t.sawURLHost == front, "with a front configured the client connects to the front")
		verifapi.Assert(t.sawHost == origHost, "with a front configured the broker (or cache) is named only in the Host header")
	} else {
		verifapi.Assert(t.sawURLHost == origHost && t.sawHost == origHost, "without a front the request goes to the broker (or cache) itself")
	}
}

func VerifC11_HTTPExchange() {
	front := ""
	if verifapi.Bool("front") {
		front = "front.example"
	}
	size := verifSizes[verifapi.Concrete(verifapi.Choice("body.size", 4))]
	t := &verifTransport{status: 200, body: &verifBody{n: size, full: true}}
	if verifapi.Bool("status.not200") {
		t.status = verifapi.Int("status")
		verifapi.Assume(t.status != 200)
	}
	r := &httpRendezvous{brokerURL: &url.URL{Scheme: "https", Host: "broker.example", Path: "/"}, front: front, transport: t}
	data, err := r.Exchange([]byte("poll"))
	verifFrontingOracle(t, front, "broker.example")
	if t.calls == 1 {
		verifapi.Assert(t.sawMethod == "POST", "the poll is POSTed")
	}
	if err == nil {
		verifapi.Cover("http exchange succeeded")
		verifapi.Assert(t.status == 200, "a non-200 status is reported as an error")
		verifapi.Assert(size <= 100000, "a body beyond the 100 KB limit is reported as an error, never as truncated data")
		verifapi.Assert(len(data) == size, "the response body is returned whole")
	} else if t.status != 200 && t.calls == 1 {
		verifapi.Cover("http exchange: bad status")
		verifapi.Assert(data == nil, "no data with a non-200 status")
	}
}

func VerifC11_AMPExchange() {
	front := ""
	if verifapi.Bool("front") {
		front = "front.example"
	}
	size := verifSizes[verifapi.Concrete(verifapi.Choice("body.size", 4))]
	t := &verifTransport{status: 200, body: &verifBody{n: size, full: true}}
	if verifapi.Bool("status.not200") {
		t.status = verifapi.Int("status")
		verifapi.Assume(t.status != 200)
	}
	brokerPath := "/"
	if verifapi.Bool("broker URL with a path") {
		brokerPath = "/snowflake/"
	}
	r := &ampCacheRendezvous{brokerURL: &url.URL{Scheme: "https", Host: "broker.example", Path: brokerPath}, front: front, transport: t}
	orig := "broker.example"
	wantPath := brokerPath + "amp/client/0pad/data"
	if verifapi.Bool("cache") {
		r.cacheURL = &url.URL{Scheme: "https", Host: "cache.example"}
		orig = "prefix.cache.example"
		wantPath = "/c/s/broker.example" + wantPath
	}
	data, err := r.Exchange([]byte("poll"))
	verifFrontingOracle(t, front, orig)
	if t.calls == 1 {
		verifapi.Assert(t.sawMethod == "GET", "the AMP poll is a GET")
		verifapi.Assert(t.sawPath == wantPath, "the AMP poll goes to amp/client/<encoded poll> under the broker URL's own path (under the cache's prefix when a cache is used)")
	}
	if t.calls == 1 && !t.failed && t.status == 200 && !verifHasLocation && !verifBadVersion && !verifDecFailed && size <= 100000 {
		verifapi.Cover("well-formed response within the limit")
		verifapi.Assert(err == nil, "a well-formed response of up to exactly 100000 bytes is accepted")
	}
	if verifDecFailed {
		verifapi.Cover("armor decoding failed while streaming")
		verifapi.Assert(err != nil, "C10: an armor stream that turns out malformed while it is read is reported as an error, never as partial data")
	}
	if err == nil {
		verifapi.Cover("amp exchange succeeded")
		verifapi.Assert(t.status == 200, "a non-200 status is reported as an error")
		verifapi.Assert(size <= 100000, "an AMP body beyond the 100 KB limit is reported as an error, never as truncated data")
		verifapi.Assert(len(data) == 1 && data[0] == 'R', "exactly the decoded poll response is returned")
	}
}
