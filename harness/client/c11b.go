package snowflake_client

// C11, configuration plumbing: the rendezvous object built from a client configuration talks to
// the configured broker, through the configured AMP cache if and only if one is configured, and
// fronts with exactly the configured front domain.

import (
	"net/http"
	"net/url"

	"git.torproject.org/pluggable-transports/snowflake.git/v2/internal/verifapi"
)

// net/url.Parse as a tracer: the URL remembers the text it was parsed from
func verifURLParseTrace(raw string) (*url.URL, error) {
	if raw == "bad" {
		return nil, verifErr11b
	}
	return &url.URL{Scheme: "https", Host: raw}, nil
}

var verifErr11b = http.ErrNotSupported

func verifCreateBrokerTransport11b() http.RoundTripper { return nil }

func VerifC11_ChannelConfig() {
	pick := func(name string, vals [3]string) string { return vals[verifapi.Concrete(verifapi.Choice(name, 3))] }
	cfg := ClientConfig{
		BrokerURL:   pick("broker", [3]string{"broker.example", "other-broker.example", "bad"}),
		AmpCacheURL: pick("cache", [3]string{"", "cache.example", "bad"}),
		FrontDomain: pick("front", [3]string{"", "front.example", "cache.example"}),
	}
	bc, err := newBrokerChannelFromConfig(cfg)
	if cfg.BrokerURL == "bad" || cfg.AmpCacheURL == "bad" {
		verifapi.Cover("unparseable URL")
		verifapi.Assert(err != nil && bc == nil, "a configuration whose URLs do not parse is rejected")
		return
	}
	verifapi.Assert(err == nil && bc != nil, "a channel is built")
	if cfg.AmpCacheURL == "" {
		verifapi.Cover("HTTP rendezvous")
		r, ok := bc.Rendezvous.(*httpRendezvous)
		verifapi.Assert(ok, "without an AMP cache the HTTP rendezvous is used")
		verifapi.Assert(r.brokerURL.Host == cfg.BrokerURL, "the rendezvous talks to the configured broker")
		verifapi.Assert(r.front == cfg.FrontDomain, "the rendezvous fronts with exactly the configured front domain")
	} else {
		verifapi.Cover("AMP cache rendezvous")
		r, ok := bc.Rendezvous.(*ampCacheRendezvous)
		verifapi.Assert(ok, "with an AMP cache configured the AMP rendezvous is used")
		verifapi.Assert(r.brokerURL.Host == cfg.BrokerURL, "the rendezvous talks to the configured broker")
		verifapi.Assert(r.cacheURL != nil && r.cacheURL.Host == cfg.AmpCacheURL, "the rendezvous goes through the configured AMP cache")
		verifapi.Assert(r.front == cfg.FrontDomain, "the rendezvous fronts with exactly the configured front domain")
	}
}

// ---- C15: building the client never crashes it, whatever the configuration -------------------
//
// NewSnowflakeClient with a broker configuration that is or is not usable; the NAT probe it
// starts in the background fails or answers. No goroutine may touch a broker channel that was
// never built.

func verifRandSeed(seed int64)                    {}
func verifRandShuffle(n int, swap func(i, j int)) {}
func verifCheckNAT(addr string) (bool, error) {
	if verifapi.Bool("nat probe fails") {
		return false, verifErr11b
	}
	return verifapi.Bool("nat restricted"), nil
}

func VerifC15_NewClient() {
	pick := func(name string, vals [2]string) string { return vals[verifapi.Concrete(verifapi.Choice(name, 2))] }
	cfg := ClientConfig{
		BrokerURL:    pick("broker", [2]string{"broker.example", "bad"}),
		ICEAddresses: []string{"stun:stun.example:3478"},
		Max:          1,
	}
	t, err := NewSnowflakeClient(cfg)
	verifapi.Quiesce() // the background NAT probe has run
	verifapi.Cover("client constructed or refused")
	if cfg.BrokerURL == "bad" {
		verifapi.Assert(err != nil && t == nil, "an unusable broker configuration is reported as an error")
	} else {
		verifapi.Assert(err == nil && t != nil, "a usable configuration yields a transport")
	}
}
