package snowflake_client

// C08 (c), client side: unless local addresses are explicitly kept, the description sent to
// the broker is the stripped one.

import (
	"errors"
	"net/http"

	"github.com/pion/webrtc/v3"

	"git.torproject.org/pluggable-transports/snowflake.git/v2/internal/verifapi"
)

var (
	verifSerialized *webrtc.SessionDescription
	verifStripCalls int
)

func verifStrip(s string) string { verifStripCalls++; return "STRIPPED:" + s }
func verifSerialize(d *webrtc.SessionDescription) (string, error) {
	verifSerialized = d
	return "serialized", nil
}

type verifRendezvous struct{ got []byte }

func (r *verifRendezvous) Exchange(b []byte) ([]byte, error) {
	r.got = b
	return nil, errors.New("broker unreachable (stub)")
}

func VerifC08_ClientCallSite() {
	keep := verifapi.Bool("keepLocalAddresses")
	t := webrtc.SDPType(verifapi.Concrete(verifapi.Choice("type", 4)) + 1)
	// the channel is built by the real constructor from a client configuration in which every
	// other boolean option is arbitrary too
	bc, cerr := newBrokerChannelFromConfig(ClientConfig{BrokerURL: "https://broker.example/", KeepLocalAddresses: keep,
		UTLSRemoveSNI: verifapi.Bool("utlsRemoveSNI"), FrontDomain: "front.example"})
	verifapi.Assume(cerr == nil)
	bc.Rendezvous = &verifRendezvous{}
	_, err := bc.Negotiate(&webrtc.SessionDescription{Type: t, SDP: "ORIGINAL"})
	verifapi.Assert(err != nil, "the stubbed broker is unreachable")
	verifapi.Assert(verifSerialized != nil, "a description is serialised for the broker")
	verifapi.Assert(verifSerialized.Type == t, "the description's type is unchanged")
	if keep {
		verifapi.Cover("client keeps local addresses")
		verifapi.Assert(verifSerialized.SDP == "ORIGINAL" && verifStripCalls == 0, "with keep-local set the description is sent as it is")
	} else {
		verifapi.Cover("client strips local addresses")
		verifapi.Assert(verifSerialized.SDP == "STRIPPED:ORIGINAL", "unless local addresses are explicitly kept the description sent to the broker is the stripped one")
	}
}

func verifJSONMarshalNop(v interface{}) ([]byte, error) { return []byte("{}"), nil }

func verifCreateBrokerTransport() http.RoundTripper { return nil }
func verifNewHTTPRendezvous(broker, front string, transport http.RoundTripper) (*httpRendezvous, error) {
	return &httpRendezvous{}, nil
}
