package safelog

// C07 (F2, F3): the structure of Scrub and the line buffering of LogScrubber.Write.
// Go's regexp engine is not executed symbolically: ReplaceAllFunc / ReplaceAll are stubs
// (uninterpreted one-pass replacement); the patterns themselves are decided by the regex
// bridge (engine/regexjob.go).

import (
	"errors"
	"regexp"

	"git.torproject.org/pluggable-transports/snowflake.git/v2/internal/verifapi"
)

var (
	verifPasses       int
	verifLastChanged  bool
	verifLastOut      []byte
	verifInnerCalls   int
	verifInnerPattern *regexp.Regexp
	verifInnerRepl    string
	verifOuterPattern *regexp.Regexp
)

// (*regexp.Regexp).ReplaceAllFunc as "the one-pass replacement": either nothing matched (the
// text comes back unchanged) or something did (the text comes back different).
func verifReplaceAllFunc(re *regexp.Regexp, src []byte, repl func([]byte) []byte) []byte {
	verifPasses++
	verifOuterPattern = re
	verifapi.Assume(verifPasses <= 3) // stated bound: at most 2 passes find a match
	// the callback must scrub the addresses inside each outer match
	m := []byte("match")
	verifInnerCalls = 0
	r := repl(m)
	verifapi.Assert(verifInnerCalls == 1, "each outer match is passed through the address replacement")
	verifapi.Assert(string(r) == "inner-replaced", "the callback returns the address-scrubbed match")
	out := make([]byte, len(src), len(src)+1)
	copy(out, src)
	if verifapi.Bool("pass.matches") {
		verifLastChanged = true
		// a pass that matches changes the text (F1: every match contains an address) - its
		// length may or may not change (an address can be as long as the placeholder)
		if len(out) > 0 && verifapi.Bool("pass.keepsLength") {
			out[0] ^= 0x01
		} else {
			out = append(out, '#')
		}
	} else {
		verifLastChanged = false
	}
	verifLastOut = out
	return out
}
func verifReplaceAll(re *regexp.Regexp, src, repl []byte) []byte {
	verifInnerCalls++
	verifInnerPattern = re
	verifInnerRepl = string(repl)
	return []byte("inner-replaced")
}

// VerifC07_ScrubFixpoint: Scrub returns a fixpoint of the one-pass replacement, built from the
// two package patterns: a pass that still finds an address is followed by another pass.
func VerifC07_ScrubFixpoint() {
	in := verifapi.Bytes("line", 3)
	out := Scrub(in)
	verifapi.Cover("Scrub returned")
	verifapi.Assert(verifPasses >= 1, "Scrub applies the replacement")
	verifapi.Assert(verifOuterPattern == scrubberPatterns[0], "the outer pass uses the full address pattern")
	verifapi.Assert(verifInnerPattern == addressRegexp, "addresses inside a match are replaced with the address pattern")
	verifapi.Assert(verifInnerRepl != "", "addresses are replaced by a (non-empty) placeholder") // that it contains no address is the regex bridge's query
	verifapi.Assert(!verifLastChanged, "F2: Scrub's result is a fixpoint of the one-pass replacement (no pass that found an address is the last one)")
	verifapi.Assert(len(out) == len(verifLastOut), "Scrub returns the result of its last pass")
}

// ---- F3: line buffering ---------------------------------------------------------------------

type verifOut struct {
	buf    []byte
	writes int
	fail   bool
	bad    bool
}

func (o *verifOut) Write(p []byte) (int, error) {
	o.writes++
	if len(p) == 0 || p[len(p)-1] != '\n' {
		o.bad = true // only complete lines may reach the sink
	}
	if o.fail {
		return 0, errors.New("sink failure (stub)")
	}
	o.buf = append(o.buf, p...)
	return len(p), nil
}

// Scrub as a marking function: every byte that went through it has its top bit set (newlines
// are kept), so the sink can tell scrubbed from unscrubbed bytes.
func verifScrubIdentity(b []byte) []byte {
	o := make([]byte, len(b))
	for i := range b {
		o[i] = b[i]
		if b[i] != '\n' {
			o[i] |= 0x80
		}
	}
	return o
}

// VerifC07_LineBuffering: for every byte string b and every split point, one Write(b) and
// Write(b[:k]); Write(b[k:]) emit the same bytes - the longest prefix of b ending in a
// newline - and only complete lines ever reach the sink.
func VerifC07_LineBuffering() {
	b := verifapi.Bytes("b", verifapi.Param("blen", 5))
	n := verifapi.Concrete(len(b))
	b = b[:n]
	for i := 0; i < n; i++ {
		verifapi.Assume(b[i] < 0x80) // log text; the top bit is the harness's "went through Scrub" mark
	}
	k := verifapi.Concrete(verifapi.Choice("split", 7))
	verifapi.Assume(k <= n)
	one, two := &verifOut{}, &verifOut{}
	ls1, ls2 := &LogScrubber{Output: one}, &LogScrubber{Output: two}
	n1, err1 := ls1.Write(b)
	verifapi.Assert(err1 == nil && n1 == n, "Write accepts the whole buffer")
	// the second writer is fed from a buffer the caller reuses between its writes (io.Copy does)
	tmp := make([]byte, n)
	copy(tmp, b[:k])
	_, e2 := ls2.Write(tmp[:k])
	for i := 0; i < k; i++ {
		tmp[i] = '#'
	}
	copy(tmp, b[k:])
	_, e3 := ls2.Write(tmp[:n-k])
	verifapi.Assert(e2 == nil && e3 == nil, "split writes succeed")
	last := -1
	for i := 0; i < n; i++ {
		if b[i] == '\n' {
			last = i
		}
	}
	verifapi.Cover("line buffering")
	verifapi.Assert(!one.bad && !two.bad, "only complete lines are ever emitted")
	verifapi.Assert(len(one.buf) == last+1, "the complete lines - and nothing after the last newline - are emitted")
	verifapi.Assert(len(two.buf) == len(one.buf), "the output does not depend on how the bytes are split across writes")
	for i := 0; i <= last; i++ {
		want := b[i]
		if want != '\n' {
			want |= 0x80
		}
		verifapi.Assert(one.buf[i] == want, "every emitted byte went through the scrubber, in order")
		verifapi.Assert(two.buf[i] == want, "every emitted byte went through the scrubber however the bytes were split across writes")
	}
	verifapi.Assert(len(ls1.buffer) == n-(last+1) && len(ls2.buffer) == n-(last+1), "the unfinished line is held back")
}

func VerifC07_SinkError() {
	o := &verifOut{fail: true}
	ls := &LogScrubber{Output: o}
	_, err := ls.Write([]byte("line\n"))
	verifapi.Cover("sink error")
	verifapi.Assert(err != nil, "an error of the log sink is returned to the writer")
	ls.Lock() // the scrubber's mutex was released on the error path
	ls.Unlock()
}

// a sink that takes part of what it is given and then fails (disk full, closed pipe), and works
// again afterwards; Scrub changes the length of the text (a placeholder is longer or shorter
// than the address it replaces)
type verifPartialSink struct {
	take  int // bytes accepted by the failing write; -1: working
	buf   []byte
	fails int
}

func (o *verifPartialSink) Write(p []byte) (int, error) {
	if o.take >= 0 {
		k := o.take
		if k > len(p) {
			k = len(p)
		}
		o.take = -1
		o.fails++
		o.buf = append(o.buf, p[:k]...)
		return k, errors.New("sink failure after a partial write (stub)")
	}
	o.buf = append(o.buf, p...)
	return len(p), nil
}

// Scrub as a length-changing marker: 'A' becomes "SS" (placeholder longer than the address),
// 'L' disappears together with the byte after it (placeholder shorter)
func verifScrubResize(b []byte) []byte {
	var o []byte
	for i := 0; i < len(b); i++ {
		switch b[i] {
		case 'A':
			o = append(o, 'S', 'S')
		case 'L':
			i++
		default:
			o = append(o, b[i])
		}
	}
	return o
}

// VerifC07_SinkPartialFailure: a sink error after a partial write, then a working sink. Nothing
// panics, and no byte that did not go through the scrubber ever reaches the sink.
func VerifC07_SinkPartialFailure() {
	o := &verifPartialSink{take: verifapi.Concrete(verifapi.Choice("bytes taken before the failure", 8))}
	ls := &LogScrubber{Output: o}
	line := [3]string{"AAA x\n", "xLyLz w\n", "A\nLL\n"}[verifapi.Concrete(verifapi.Choice("line", 3))]
	_, err := ls.Write([]byte(line))
	verifapi.Assert(err != nil && o.fails == 1, "the sink's error is returned to the writer")
	_, err = ls.Write([]byte("next\n"))
	verifapi.Cover("sink failed partially, then worked")
	verifapi.Assert(err == nil, "the scrubber works again once the sink does")
	for _, c := range o.buf {
		verifapi.Assert(c != 'A' && c != 'L', "no byte reaches the sink without having gone through the scrubber, also after a sink failure")
	}
}

// VerifC07_ConcurrentWriters: two goroutines write through one LogScrubber at the same time
// (log.Logger serialises its own writes, but several loggers may share the writer). Every line
// reaches the sink whole, scrubbed, exactly once, and the scrubber's state is never accessed
// without its lock (happens-before monitor).
func VerifC07_ConcurrentWriters() {
	out := &verifOut{}
	ls := &LogScrubber{Output: out}
	done := make(chan bool, 2)
	go func() {
		ls.Write([]byte("A1"))
		ls.Write([]byte("A2\n"))
		done <- true
	}()
	go func() {
		ls.Write([]byte("b\n"))
		done <- true
	}()
	<-done
	<-done
	verifapi.Cover("both writers done")
	verifapi.Assert(!out.bad, "only complete lines reach the sink")
	// the partial "A1" may be followed by the other writer's "b\n" (bytes are buffered in arrival
	// order), but nothing is lost, duplicated or left unscrubbed
	as, bs, nl := 0, 0, 0
	for _, c := range out.buf {
		switch c {
		case 'A' | 0x80:
			as++
		case 'b' | 0x80:
			bs++
		case '\n':
			nl++
		}
		verifapi.Assert(c == '\n' || c&0x80 != 0, "every emitted byte went through the scrubber")
	}
	verifapi.Assert(as == 2 && bs == 1 && nl == 2 && len(out.buf) == 7, "every byte written is emitted exactly once")
}
