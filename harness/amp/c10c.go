package amp

// C10, end to end through the REAL x/net/html tokenizer: the document the real encoder emits
// for an arbitrary payload (written in two arbitrary pieces), with the separators inside the
// pre element re-written to other ASCII whitespace (optionally doubled) and a piece of foreign
// markup inserted before the pre element, is decoded by the real decodeToWriter to the
// version byte followed by the base64 text of exactly that payload.
//
// The boilerplate is concrete, so the tokenizer's work on it costs interpreter time only; the
// symbolic bytes are the base64 characters and the re-written separators.

import (
	"bytes"
	"encoding/base64"

	"git.torproject.org/pluggable-transports/snowflake.git/v2/internal/verifapi"
)

func verifIsWS(b byte) bool {
	return verifapi.Or(verifapi.Or(b == 0x09, b == 0x0a), verifapi.Or(b == 0x0c, verifapi.Or(b == 0x0d, b == 0x20)))
}

func VerifC10_EndToEnd() {
	max := verifapi.Param("plen", 3)
	p := verifapi.Bytes("p", max)
	n := verifapi.Concrete(len(p))
	p = p[:n]
	cut := verifapi.Concrete(verifapi.Choice("cut", n+1))

	var doc bytes.Buffer
	enc, err := NewArmorEncoder(&doc)
	verifapi.Assert(err == nil && enc != nil, "the encoder starts on a healthy writer")
	k, err := enc.Write(p[:cut])
	verifapi.Assert(err == nil && k == cut, "first write accepted in full")
	k, err = enc.Write(p[cut:])
	verifapi.Assert(err == nil && k == n-cut, "second write accepted in full")
	verifapi.Assert(enc.Close() == nil, "close succeeds")

	// cache-style rewriting: separators inside the pre element become other whitespace,
	// optionally doubled; foreign markup goes in front of the pre element.
	src := doc.Bytes()
	start := bytes.Index(src, []byte("<pre>"))
	end := bytes.Index(src, []byte("</pre>"))
	verifapi.Assert(start > 0 && end > start, "one pre element")
	var out []byte
	out = append(out, src[:start]...)
	if verifapi.Bool("foreign markup") {
		out = append(out, []byte("<div class=x>ad &amp; text</div>\n<!-- c -->")...)
	}
	out = append(out, src[start:start+5]...)
	seps := verifapi.Param("seps", 8) // how many separators are re-written (the others stay as emitted)
	for i := start + 5; i < end; i++ {
		b := src[i]
		if b == '\n' && seps > 0 {
			seps--
			w := verifapi.Uint8("ws")
			verifapi.Assume(verifIsWS(w))
			out = append(out, w)
			if verifapi.Bool("ws.doubled") {
				out = append(out, ' ')
			}
		} else {
			out = append(out, b)
		}
	}
	out = append(out, src[end:]...)

	var text bytes.Buffer
	total, err := decodeToWriter(&text, bytes.NewReader(out))
	verifapi.Cover("decoded")
	verifapi.Assert(err == nil, "the armored document decodes without error")
	t := text.Bytes()
	verifapi.Assert(int(total) == len(t) && len(t) >= 1, "total counts the bytes handed on; the version byte is there")
	verifapi.Assert(t[0] == '0', "version byte first")
	got, err := base64.StdEncoding.DecodeString(string(t[1:]))
	verifapi.Assert(err == nil, "what follows the version byte is well-formed base64")
	verifapi.Assert(len(got) == n, "decoded length is the payload length")
	for i := 0; i < n; i++ {
		verifapi.Assert(got[i] == p[i], "decoded payload equals the payload")
	}
	if n == max {
		verifapi.Cover("longest payload")
	}
}

// VerifC10_ArbitraryText: arbitrary bytes inside (and running out of) a pre element, through
// the real tokenizer.  decodeToWriter never panics, accounts for every byte it hands on, never
// hands on whitespace; and when the arbitrary part holds no markup-significant byte the output
// is exactly its non-whitespace bytes in order (the reference decoder), with an error exactly
// when the element is left open.
func VerifC10_ArbitraryText() {
	max := verifapi.Param("alen", 3)
	a := verifapi.Bytes("a", max)
	n := verifapi.Concrete(len(a))
	a = a[:n]
	closed := verifapi.Bool("closed")
	doc := []byte("<p>x</p><pre>\n0")
	doc = append(doc, a...)
	if closed {
		doc = append(doc, []byte("</pre>")...)
	}
	var text bytes.Buffer
	total, err := decodeToWriter(&text, bytes.NewReader(doc))
	verifapi.Cover("returned")
	t := text.Bytes()
	verifapi.Assert(int(total) == len(t), "total counts the bytes handed on")
	for i := 0; i < len(t); i++ {
		verifapi.Assert(!verifIsWS(t[i]), "no whitespace is handed on")
	}
	plain := true
	for i := 0; i < n; i++ {
		b := a[i]
		if verifapi.Or(verifapi.Or(b == '<', b == '&'), verifapi.Or(b == 0, b >= 0x80)) {
			plain = false
		}
	}
	if plain {
		verifapi.Cover("plain text")
		var want []byte
		want = append(want, '0')
		for i := 0; i < n; i++ {
			if !verifIsWS(a[i]) {
				want = append(want, a[i])
			}
		}
		verifapi.Assert(len(t) == len(want), "plain text: every non-whitespace byte is handed on, nothing else")
		for i := 0; i < len(want) && i < len(t); i++ {
			verifapi.Assert(t[i] == want[i], "plain text: bytes in order")
		}
		verifapi.Assert((err == nil) == closed, "plain text: an error exactly when the pre element is left open")
	}
}
