package amp

// C10, end to end through the REAL x/net/html tokenizer: the document the real encoder emits
// for an arbitrary payload (written in two arbitrary pieces), with the separators inside the
// pre element re-written to other ASCII whitespace (optionally doubled) and a piece of foreign
// markup inserted before the pre element, is decoded by the real decodeToWriter to the
// version byte followed by the base64 text of exactly that payload.
//
// The boilerplate is concrete, so the tokenizer's work on it costs interpreter time only; the
// symbolic bytes are the base64 characters and the re-written separators.

import (
	"bytes"
	"encoding/base64"

	"git.torproject.org/pluggable-transports/snowflake.git/v2/internal/verifapi"
)

func verifIsWS(b byte) bool {
	return verifapi.Or(verifapi.Or(b == 0x09, b == 0x0a), verifapi.Or(b == 0x0c, verifapi.Or(b == 0x0d, b == 0x20)))
}

func VerifC10_EndToEnd() {
	max := verifapi.Param("plen", 3)
	p := verifapi.Bytes("p", max)
	n := verifapi.Concrete(len(p))
	p = p[:n]
	cut := verifapi.Concrete(verifapi.Choice("cut", n+1))

	var doc bytes.Buffer
	enc, err := NewArmorEncoder(&doc)
	verifapi.Assert(err == nil && enc != nil, "the encoder starts on a healthy writer")
	k, err := enc.Write(p[:cut])
	verifapi.Assert(err == nil && k == cut, "first write accepted in full")
	k, err = enc.Write(p[cut:])
	verifapi.Assert(err == nil && k == n-cut, "second write accepted in full")
	verifapi.Assert(enc.Close() == nil, "close succeeds")

	// cache-style rewriting: separators inside the pre element become other whitespace,
	// optionally doubled; foreign markup goes in front of the pre element.
	src := doc.Bytes()
	start := bytes.Index(src, []byte("<pre>"))
	end := bytes.Index(src, []byte("</pre>"))
	verifapi.Assert(start > 0 && end > start, "one pre element")
	var out []byte
	out = append(out, src[:start]...)
	if verifapi.Bool("foreign markup") {
		out = append(out, []byte("<div class=x>ad &amp; text</div>\n<!-- c -->")...)
	}
	out = append(out, src[start:start+5]...)
	seps := verifapi.Param("seps", 8) // how many separators are re-written (the others stay as emitted)
	for i := start + 5; i < end; i++ {
		b := src[i]
		if b == '\n' && seps > 0 {
			seps--
			w := verifapi.Uint8("ws")
			verifapi.Assume(verifIsWS(w))
			out = append(out, w)
			if verifapi.Bool("ws.doubled") {
				out = append(out, ' ')
			}
		} else {
			out = append(out, b)
		}
	}
	out = append(out, src[end:]...)

	var text bytes.Buffer
	total, err := decodeToWriter(&text, bytes.NewReader(out))
	verifapi.Cover("decoded")
	verifapi.Assert(err == nil, "the armored document decodes without error")
	t := text.Bytes()
	verifapi.Assert(int(total) == len(t) && len(t) >= 1, "total counts the bytes handed on; the version byte is there")
	verifapi.Assert(t[0] == '0', "version byte first")
	got, err := base64.StdEncoding.DecodeString(string(t[1:]))
	verifapi.Assert(err == nil, "what follows the version byte is well-formed base64")
	verifapi.Assert(len(got) == n, "decoded length is the payload length")
	for i := 0; i < n; i++ {
		verifapi.Assert(got[i] == p[i], "decoded payload equals the payload")
	}
	if n == max {
		verifapi.Cover("longest payload")
	}
}
