package amp

// C11 (a), (e): AMP URL path codec and the cache domain prefix.

import (
	"net/url"

	"git.torproject.org/pluggable-transports/snowflake.git/v2/internal/verifapi"
)

// VerifC11_PathRoundTrip: a poll encoded into an AMP URL path decodes to the same bytes,
// whatever cache-breaking padding precedes it (real encoding/base64 on both sides).
func VerifC11_PathRoundTrip() {
	d := verifapi.Bytes("data", verifapi.Param("dlen", 5))
	n := verifapi.Concrete(len(d))
	d = d[:n]
	p := EncodePath(d)
	got, err := DecodePath(p)
	verifapi.Cover("path round trip")
	verifapi.Assert(err == nil, "an encoded path decodes")
	verifapi.Assert(len(got) == n, "the decoded poll has the original length")
	for i := 0; i < n; i++ {
		verifapi.Assert(got[i] == d[i], "the decoded poll has the original bytes")
	}
	// the data part must survive being the last path segment: no '/' inside it
	slash := -1
	for i := len(p) - 1; i >= 0; i-- {
		if p[i] == '/' {
			slash = i
			break
		}
	}
	verifapi.Assert(slash >= 1, "the path has a data segment")
	// any other padding (slashes included) in front of the same data segment decodes alike
	pad := verifapi.String("pad", verifapi.Param("padlen", 3))
	got2, err := DecodePath("0" + pad + p[slash:])
	verifapi.Cover("path with other padding")
	verifapi.Assert(err == nil && len(got2) == n, "the poll decodes whatever padding precedes it")
	for i := 0; i < n; i++ {
		verifapi.Assert(got2[i] == d[i], "the poll decodes to the same bytes whatever padding precedes it")
	}
}

// VerifC11_PathErrors: malformed paths are errors, never panics.
func VerifC11_PathErrors() {
	p := verifapi.String("path", verifapi.Param("plen", 4))
	_ = verifapi.Concrete(len(p))
	got, err := DecodePath(p)
	hasSlash := false
	for i := 1; i < len(p); i++ {
		if p[i] == '/' {
			hasSlash = true
		}
	}
	if len(p) == 0 || p[0] != '0' || !hasSlash {
		verifapi.Cover("bad path")
		verifapi.Assert(err != nil, "an empty path, an unknown version or a missing data segment is an error")
		verifapi.Assert(got == nil, "no data with an error")
	} else {
		verifapi.Cover("well-formed path prefix")
	}
}

// ---- (e) domain prefix ---------------------------------------------------------------------

var verifBasic string
var verifBasicErr bool

func verifDomainPrefixBasic(domain string) (string, error) {
	if verifapi.Bool("basic.fails") {
		verifBasicErr = true
		return "", ErrUnknownVersion(0)
	}
	n := verifapi.Concrete(verifapi.Choice("basic.len", 4)) // 0, 62, 63, 64, 70 bytes
	verifBasic = string(make([]byte, [4]int{1, 63, 64, 70}[n]))
	return verifBasic, nil
}
func verifFallback(domain string) string { return "fallback:" + domain }

func VerifC11_DomainPrefixChoice() {
	got := domainPrefix("example.com")
	if !verifBasicErr && len(verifBasic) <= 63 {
		verifapi.Cover("basic prefix used")
		verifapi.Assert(got == verifBasic, "the basic algorithm's prefix is used when it succeeds with at most 63 bytes")
	} else {
		verifapi.Cover("fallback prefix used")
		verifapi.Assert(got == "fallback:example.com", "otherwise the SHA-256/base32 fallback of the publisher domain itself is used")
	}
}

func verifSum256(data []byte) [32]byte {
	verifapi.Assert(string(data) == "example.com", "the fallback hashes the bytes of the publisher domain")
	var h [32]byte
	for i := range h {
		h[i] = verifapi.Uint8("sha256")
	}
	return h
}

func VerifC11_FallbackLabel() {
	got := domainPrefixFallback("example.com")
	verifapi.Cover("fallback label")
	verifapi.Assert(len(got) == 52, "the fallback prefix is 52 bytes: a single label of at most 63 bytes")
	j := verifapi.Concrete(verifapi.Choice("j", 52))
	c := got[j]
	verifapi.Assert((c >= 'a' && c <= 'z') || (c >= '2' && c <= '7'), "the fallback prefix is lower-case base32: no dot, a valid DNS label")
}

// ---- CacheURL: documented rejections and the wiring of the result ---------------------------

var (
	verifPubPort, verifCachePort string
	verifPubHost                 string
)

func verifHostname11(u *url.URL) string { return u.Host } // the harness puts the bare hostname in Host
func verifPort11(u *url.URL) string {
	if u.Scheme == "cache" {
		return verifCachePort
	}
	return verifPubPort
}
func verifEscapedPath11(u *url.URL) string {
	if u.Scheme == "cache" {
		return "/cachepath"
	}
	return "/pubpath"
}
func verifPathEscape11(s string) string            { return "esc(" + s + ")" }
func verifPathUnescape11(s string) (string, error) { return "unesc:" + s, nil }
func verifDomainPrefix11(domain string) string     { return "PREFIX" }

func VerifC11_CacheURL() {
	schemes := [3]string{"http", "https", "ftp"}
	pub := &url.URL{Scheme: schemes[verifapi.Concrete(verifapi.Choice("pub.scheme", 3))], Host: "pub.example", RawQuery: "q=" + verifapi.String("pub.query", 2), Fragment: verifapi.String("pub.fragment", 2)}
	if verifapi.Bool("pub.noHost") {
		pub.Host = ""
	}
	if verifapi.Bool("pub.userinfo") {
		pub.User = url.User("u")
	}
	verifPubPort = [4]string{"", "80", "443", "8080"}[verifapi.Concrete(verifapi.Choice("pub.port", 4))]
	cache := &url.URL{Scheme: "cache", Host: "cdn.example", User: url.User("cacheuser")}
	verifCachePort = [2]string{"", "8443"}[verifapi.Concrete(verifapi.Choice("cache.port", 2))]
	if verifapi.Bool("cache.query") {
		cache.RawQuery = "x"
	}
	if verifapi.Bool("cache.fragment") {
		cache.Fragment = "f"
	}
	ct := "c"
	if verifapi.Bool("emptyContentType") {
		ct = ""
	}
	got, err := CacheURL(pub, cache, ct)
	portOK := verifPubPort == "" || (pub.Scheme == "http" && verifPubPort == "80") || (pub.Scheme == "https" && verifPubPort == "443")
	bad := ct == "" || pub.Scheme == "ftp" || pub.User != nil || !portOK || pub.Host == "" || cache.RawQuery != "" || cache.Fragment != ""
	if bad {
		verifapi.Cover("cache URL rejected")
		verifapi.Assert(err != nil && got == nil, "an empty content type, a non-http(s) publisher, userinfo, a non-default port, an empty host, or a cache URL with query or fragment is rejected")
		return
	}
	verifapi.Cover("cache URL built")
	verifapi.Assert(err == nil && got != nil, "a well-formed publisher/cache pair yields a cache URL")
	verifapi.Assert(got.Scheme == "cache" && got.User == cache.User, "scheme and userinfo come from the cache URL")
	wantHost := "PREFIX.cdn.example"
	if verifCachePort != "" {
		wantHost = "PREFIX.cdn.example:8443"
	}
	verifapi.Assert(got.Host == wantHost, "the host is the domain prefix of the publisher, a dot, and the cache host (and port)")
	verifapi.Assert(got.RawQuery == pub.RawQuery && got.Fragment == pub.Fragment, "query and fragment come from the publisher URL")
	wantRaw := "/cachepath/esc(c)/esc(pub.example)/pubpath"
	if pub.Scheme == "https" {
		wantRaw = "/cachepath/esc(c)/s/esc(pub.example)/pubpath"
	}
	verifapi.Assert(got.RawPath == wantRaw, "the path is the cache path, /c, /s for https, the publisher host and the publisher's path")
	verifapi.Assert(got.Path == "unesc:"+wantRaw, "Path is the unescaped RawPath")
}

// ---- the basic domain-prefix algorithm (steps 2-4 of the AMP cache URL format), with IDNA as
// the identity (its tables are outside the claim) ------------------------------------------------

func verifIDNAIdentity(s string) (string, error) { return s, nil }

func VerifC11_PrefixBasic() {
	n := verifapi.Concrete(verifapi.Choice("domain.len", verifapi.Param("domlen", 5)+1))
	d := make([]byte, n)
	for i := range d {
		d[i] = [3]byte{'a', '-', '.'}[verifapi.Concrete(verifapi.Choice("domain.char", 3))]
	}
	got, err := domainPrefixBasic(string(d))
	verifapi.Assert(err == nil, "the basic algorithm succeeds on an ASCII domain")
	// reference, from the AMP cache URL specification: every '-' doubled, then every '.' a '-',
	// and "0-"..."-0" around a result with hyphens in positions 3 and 4
	var want []byte
	for _, c := range d {
		switch c {
		case '-':
			want = append(want, '-', '-')
		case '.':
			want = append(want, '-')
		default:
			want = append(want, c)
		}
	}
	if len(want) >= 4 && want[2] == '-' && want[3] == '-' {
		want = append(append([]byte("0-"), want...), '-', '0')
	}
	verifapi.Cover("basic prefix computed")
	verifapi.Assert(got == string(want), "the domain prefix is the one the AMP specification prescribes (hyphens doubled, dots to hyphens, 0-...-0 guard)")
	for i := 0; i < len(got); i++ {
		verifapi.Assert(got[i] != '.', "the prefix is a single dot-free label")
	}
}
