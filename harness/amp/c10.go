package amp

// C10 (partial): the shape of the AMP armor the encoder emits, the whitespace splitter and the
// decoder's state machine.  The end-to-end round trip through x/net/html's tokenizer and the
// streaming base64 decoder is outside the claim (DESIGN.md §4 C10).

import (
	"errors"
	"io"

	"golang.org/x/net/html"

	"git.torproject.org/pluggable-transports/snowflake.git/v2/internal/verifapi"
)

// recording writer: tracks the current word length and the current element's text size.
// The limits are the literal ones of the property (32-byte words, 32 KiB per element).
type verifRecW struct {
	open     bool
	wordLen  int
	elemSize int
	data     int
	bad      bool
	inTag    bool
	tag      string
}

// Write reads the emitted text byte by byte: '<' starts a tag (the data never contains '<'),
// any ASCII whitespace ends a word, everything else inside a pre element is data.
func (w *verifRecW) Write(p []byte) (int, error) {
	for i := 0; i < len(p); i++ {
		b := p[i]
		switch {
		case w.inTag:
			if b == '>' {
				w.inTag = false
				switch w.tag {
				case "pre":
					if w.open {
						w.bad = true // nested
					}
					w.open, w.wordLen, w.elemSize = true, 0, 0
				case "/pre":
					if !w.open {
						w.bad = true // stray end tag
					}
					w.open = false
				default:
					w.bad = true // other markup inside the armored part
				}
			} else {
				w.tag += string(rune(b))
			}
		case b == '<':
			w.inTag, w.tag = true, ""
		case b == 0x09 || b == 0x0a || b == 0x0c || b == 0x0d || b == 0x20:
			w.wordLen = 0
			if w.open {
				w.elemSize++
			}
		default:
			if !w.open {
				w.bad = true // data outside a pre element
			}
			w.wordLen++
			w.elemSize++
			w.data++
			if w.wordLen > 32 {
				w.bad = true
			}
		}
		if w.elemSize > 32*1024 {
			w.bad = true
		}
	}
	return len(p), nil
}

// VerifC10_EncoderStep: one inductive step of the element encoder from any state of its
// counters: the shape invariant holds during and after Write and after Close.
func VerifC10_EncoderStep() {
	cc, ec := verifapi.Int("chunkCounter"), verifapi.Int("elementCounter")
	verifapi.Assume(0 <= cc)
	verifapi.Assume(cc < bytesPerChunk)
	verifapi.Assume(0 <= ec)
	verifapi.Assume(ec < chunksPerElement)
	w := &verifRecW{}
	if !(cc == 0 && ec == 0) {
		// the pre-state is the text emitted so far for these counters: ec full words and their
		// separators plus cc bytes of the current word (a shape-correct one)
		w.open, w.wordLen, w.elemSize = true, cc, 1+(bytesPerChunk+1)*ec+cc
		verifapi.Assume(w.elemSize <= 32*1024)
		verifapi.Assume(w.wordLen <= 32)
	}
	enc := &elementEncoder{w: w, chunkCounter: cc, elementCounter: ec}
	p := verifapi.Bytes("p", verifapi.Param("plen", 40))
	n := verifapi.Concrete(len(p))
	p = p[:n]
	for i := 0; i < n; i++ {
		if i == 0 || i == n-1 {
			verifapi.Assume(p[i] > 0x20) // the encoder is fed base64 text: no whitespace ...
			verifapi.Assume(p[i] != '<') // ... and no markup
		} else {
			p[i] = 'A' // the shape does not depend on the data's content: only the two end bytes stay symbolic
		}
	}
	_, err := enc.Write(p)
	verifapi.Assert(err == nil, "Write succeeds on a working writer")
	verifapi.Assert(!w.bad, "armor shape: words of at most 32 bytes, elements of at most 32 KiB, pre elements balanced and not nested")
	verifapi.Assert(w.data == n, "every data byte is written exactly once")
	verifapi.Assert(0 <= enc.chunkCounter && enc.chunkCounter < bytesPerChunk && 0 <= enc.elementCounter && enc.elementCounter < chunksPerElement, "the encoder's counters are back inside their invariant")
	verifapi.Assert(w.open == !(enc.chunkCounter == 0 && enc.elementCounter == 0), "an element is open exactly when the counters say so")
	verifapi.Cover("encoder step")
	err = enc.Close()
	verifapi.Assert(err == nil && !w.bad && !w.open, "Close leaves no open element and keeps the shape")
}

// VerifC10_Splitter: the bufio.SplitFunc contract and "tokens are the maximal runs of
// non-whitespace bytes" - which is what makes decoding independent of which ASCII whitespace
// separates the words and how much of it.
func verifWS(b byte) bool { return b == 0x09 || b == 0x0a || b == 0x0c || b == 0x0d || b == 0x20 }

func VerifC10_Splitter() {
	data := verifapi.Bytes("data", verifapi.Param("dlen", 6))
	n := verifapi.Concrete(len(data))
	data = data[:n]
	atEOF := verifapi.Bool("atEOF")
	adv, tok, err := splitASCIIWhitespace(data, atEOF)
	verifapi.Assert(err == nil, "the splitter never fails")
	verifapi.Assert(0 <= adv && adv <= n, "advance is within the data")
	// reference: skip whitespace, then the maximal run of non-whitespace
	i := 0
	for i < n && verifWS(data[i]) {
		i++
	}
	j := i
	for j < n && !verifWS(data[j]) {
		j++
	}
	if i < j && (j < n || atEOF) {
		verifapi.Cover("splitter: token")
		verifapi.Assert(len(tok) == j-i, "the token is the maximal run of non-whitespace bytes")
		for k := 0; k < j-i; k++ {
			verifapi.Assert(tok[k] == data[i+k], "the token's bytes are the data's bytes")
		}
		verifapi.Assert(adv >= j, "the token lies inside the advanced-over prefix")
	} else {
		verifapi.Cover("splitter: no token")
		verifapi.Assert(tok == nil, "no token while the word may still continue")
		verifapi.Assert(adv == i, "only leading whitespace is skipped when more data is needed")
	}
}

// ---- decoder state machine -----------------------------------------------------------------

type verifTok struct {
	tt   html.TokenType
	pre  bool
	text []byte
}

var (
	verifToks     [6]verifTok
	verifNTok     int
	verifTokPos   int
	verifTokErr   error
	verifMaxBuf   int
	verifMaxBufAt int = -1
	verifErrTok       = errors.New("tokenizer error (stub)")
)

func verifNewTokenizer(r io.Reader) *html.Tokenizer { return new(html.Tokenizer) }
func verifSetMaxBuf(z *html.Tokenizer, n int) {
	verifMaxBuf = n
	verifMaxBufAt = verifTokPos
}
func verifNext(z *html.Tokenizer) html.TokenType {
	verifapi.Assert(verifMaxBufAt == 0 && verifMaxBuf == 32*1024, "the tokenizer's buffer is limited to 32 KiB before any input is read (no unbounded buffering)")
	if verifTokPos >= verifNTok {
		verifTokPos++
		return html.ErrorToken
	}
	t := verifToks[verifTokPos].tt
	verifTokPos++
	return t
}
func verifTokErrFn(z *html.Tokenizer) error { return verifTokErr }
func verifText(z *html.Tokenizer) []byte    { return verifToks[verifTokPos-1].text }
func verifTagName(z *html.Tokenizer) ([]byte, bool) {
	if verifToks[verifTokPos-1].pre {
		return []byte("pre"), false
	}
	// other elements: among them names that merely start with, end in or contain "pre"
	return [4][]byte{[]byte("div"), []byte("prefix"), []byte("p"), []byte("spre")}[verifapi.Concrete(verifapi.Choice("other.tag", 4))], false
}
func verifToken(z *html.Tokenizer) html.Token { return html.Token{} }

type verifSink struct{ buf []byte }

func (s *verifSink) Write(p []byte) (int, error) { s.buf = append(s.buf, p...); return len(p), nil }

func VerifC10_Decoder() {
	verifNTok = verifapi.Concrete(verifapi.Choice("ntokens", verifapi.Param("tokens", 3)+1))
	var want []byte
	active := false
	wantErr := false
	for k := 0; k < verifNTok; k++ {
		t := &verifToks[k]
		switch verifapi.Concrete(verifapi.Choice("token.type", 4)) {
		case 0:
			t.tt = html.TextToken
			t.text = verifapi.Bytes("token.text", verifapi.Param("textlen", 3))
			if active && !wantErr {
				for i := 0; i < len(t.text); i++ {
					if !verifWS(t.text[i]) {
						want = append(want, t.text[i])
					}
				}
			}
		case 1:
			t.tt, t.pre = html.StartTagToken, verifapi.Bool("token.isPre")
			if t.pre {
				if active {
					wantErr = true // nested pre
				}
				active = true
			}
		case 2:
			t.tt, t.pre = html.EndTagToken, verifapi.Bool("token.isPre")
			if t.pre {
				if !active {
					wantErr = true // stray </pre>
				}
				active = false
			}
		case 3:
			t.tt = html.CommentToken // other markup
		}
	}
	verifTokErr = io.EOF
	if verifapi.Bool("tokenizer.fails") { // incl. the max-buffer error of an oversized element
		verifTokErr = verifErrTok
	}
	w := &verifSink{}
	total, err := decodeToWriter(w, nil)
	verifapi.Cover("decoder ran")
	verifapi.Assert(total == int64(len(w.buf)), "the reported total is the number of bytes written")
	if wantErr {
		verifapi.Cover("decoder: stray or nested pre")
		verifapi.Assert(err != nil, "a nested <pre> or a stray </pre> is an error")
		return
	}
	if verifTokErr != io.EOF {
		verifapi.Assert(err == verifTokErr, "a tokenizer error (e.g. an oversized element) is reported")
	} else if active {
		verifapi.Cover("decoder: unterminated pre")
		verifapi.Assert(err != nil, "an unterminated <pre> is an error")
	} else {
		verifapi.Cover("decoder: clean end")
		verifapi.Assert(err == nil, "a well-formed document decodes without error")
	}
	verifapi.Assert(len(w.buf) == len(want), "exactly the non-whitespace text inside pre elements is decoded")
	j := verifapi.Int("j")
	if 0 <= j && j < len(want) && j < len(w.buf) {
		verifapi.Assert(w.buf[j] == want[j], "decoded bytes are the text bytes in order, whitespace removed, markup outside pre ignored")
	}
}
