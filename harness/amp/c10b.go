package amp

// C10: the version byte. NewArmorDecoder accepts exactly version '0'; any other first byte of
// the decoded element text is reported as an unknown version, and a stream that ends or fails
// before the version byte is an error too.
//
// decodeToWriter (the tokenizer-driven part, decided by the job `decoder`) is replaced by a
// producer that writes an arbitrary first byte and a little more into the pipe, or fails.

import (
	"errors"
	"io"

	"git.torproject.org/pluggable-transports/snowflake.git/v2/internal/verifapi"
)

var (
	verifVersionByte byte
	verifProducerErr error
	verifWroteAny    bool
	verifErrProducer = errors.New("armor stream error (stub)")
)

func verifDecodeToWriter(w io.Writer, r io.Reader) (int64, error) {
	if verifapi.Bool("stream.empty") {
		if verifapi.Bool("stream.fails") {
			verifProducerErr = verifErrProducer
		}
		return 0, verifProducerErr
	}
	verifVersionByte = verifapi.Uint8("version")
	verifWroteAny = true
	n, err := w.Write([]byte{verifVersionByte, 'Q', 'U', 'J', 'D'})
	return int64(n), err
}

func VerifC10_Version() {
	dec, err := NewArmorDecoder(nil)
	verifapi.Cover("NewArmorDecoder returned")
	verifapi.Assert((dec == nil) != (err == nil), "a decoder or an error")
	if !verifWroteAny {
		verifapi.Assert(err != nil, "a stream without a version byte is an error")
	} else if verifVersionByte == '0' {
		verifapi.Cover("version 0 accepted")
		verifapi.Assert(err == nil, "version 0 is accepted")
		var buf [8]byte
		total := 0
		for err == nil { // drain what follows the version byte: "QUJD" is base64 for "ABC"
			var n int
			n, err = dec.Read(buf[total:])
			total += n
		}
		verifapi.Assert(err == io.EOF && total == 3 && buf[0] == 'A' && buf[1] == 'B' && buf[2] == 'C', "what follows the version byte is base64-decoded")
	} else {
		verifapi.Cover("other version byte")
		verifapi.Assert(err != nil, "every version byte other than '0' is rejected as an unknown version")
		_ = err.Error() // the error is reported to the user: it must be renderable
	}
	verifapi.Quiesce()
}
