package util

// C08 (a): the address classification used when stripping ICE candidates equals the reference
// predicate written from the RFCs (DESIGN.md Appendix C) for every 4-byte and 16-byte IP.

import (
	"net"

	"git.torproject.org/pluggable-transports/snowflake.git/v2/internal/verifapi"
)

func refLocal4(a, b, c, d byte) bool {
	return a == 10 || // RFC 1918
		(a == 172 && b >= 16 && b <= 31) ||
		(a == 192 && b == 168) ||
		(a == 100 && b >= 64 && b <= 127) || // RFC 6598
		(a == 169 && b == 254) || // RFC 3927
		a == 127 || // loopback
		(a == 0 && b == 0 && c == 0 && d == 0) // unspecified
}

func verifStripped(ip net.IP) bool { return IsLocal(ip) || ip.IsUnspecified() || ip.IsLoopback() }

func VerifC08_Classify4() {
	ip := net.IP(verifapi.Bytes("ip", 4))
	verifapi.Assume(len(ip) == 4)
	got := verifStripped(ip)
	want := refLocal4(ip[0], ip[1], ip[2], ip[3])
	verifapi.Cover("ipv4 classified")
	verifapi.Assert(got == want, "IPv4: stripped iff private/CGN/link-local/loopback/unspecified")
}

func VerifC08_Classify16() {
	ip := net.IP(verifapi.Bytes("ip", 16))
	verifapi.Assume(len(ip) == 16)
	got := verifStripped(ip)
	mapped := true
	for i := 0; i < 10; i++ {
		mapped = verifapi.And(mapped, ip[i] == 0)
	}
	mapped = verifapi.And(mapped, verifapi.And(ip[10] == 0xff, ip[11] == 0xff))
	allZero, loop6 := true, true
	for i := 0; i < 16; i++ {
		allZero = verifapi.And(allZero, ip[i] == 0)
		if i < 15 {
			loop6 = verifapi.And(loop6, ip[i] == 0)
		} else {
			loop6 = verifapi.And(loop6, ip[i] == 1)
		}
	}
	var want bool
	if mapped {
		verifapi.Cover("ipv4-mapped classified")
		want = refLocal4(ip[12], ip[13], ip[14], ip[15])
	} else {
		verifapi.Cover("ipv6 classified")
		want = verifapi.Or(ip[0]&0xfe == 0xfc, verifapi.Or(allZero, loop6)) // RFC 4193, ::, ::1
	}
	verifapi.Assert(got == want, "IPv6: stripped iff unique-local/loopback/unspecified (or IPv4-mapped local)")
}
