package util

// C08 (b): StripLocalAddresses removes exactly the local host candidates and keeps every other
// attribute, in order.  pion's SDP/ICE parsers are stubs: an arbitrary description (two media
// sections), an arbitrary outcome per candidate line; net.ParseIP is a table look-up.

import (
	"errors"
	"net"

	"github.com/pion/ice/v2"
	"github.com/pion/sdp/v3"

	"git.torproject.org/pluggable-transports/snowflake.git/v2/internal/verifapi"
)

type verifAttr struct {
	isCand    bool
	candFails bool
	host      bool
	ipNil     bool
	local     bool
	value     string
}

var (
	verifAttrs     [2][3]verifAttr
	verifNAttr     [2]int
	verifNMedia    int
	verifUnmFails  bool
	verifMarFails  bool
	verifMarshaled [2][3]string
	verifMarshN    [2]int
	verifMarshM    int
	verifMarshCall int
)

// (values with leading / trailing blanks: whether such a candidate parses is the parser's business)
var verifValues = [2][3]string{{" m0a0", "m0a1 ", "m0a2"}, {"m1a0", " m1a1 ", "m1a2"}}

func verifSDPUnmarshal(d *sdp.SessionDescription, value []byte) error {
	if verifapi.Bool("sdp.unmarshalFails") {
		verifUnmFails = true
		return errors.New("sdp: malformed (stub)")
	}
	verifNMedia = verifapi.Concrete(verifapi.Choice("media", 3))
	for m := 0; m < verifNMedia; m++ {
		md := &sdp.MediaDescription{}
		verifNAttr[m] = verifapi.Concrete(verifapi.Choice("attrs", verifapi.Param("attrs", 2)+1))
		for k := 0; k < verifNAttr[m]; k++ {
			a := &verifAttrs[m][k]
			a.value = verifValues[m][k]
			a.isCand = verifapi.Bool("attr.isCandidate")
			key := "other"
			if a.isCand {
				key = "candidate"
				a.candFails = verifapi.Bool("cand.parseFails")
				a.host = verifapi.Bool("cand.isHost")
				a.ipNil = verifapi.Bool("cand.addrNotIP")
				a.local = verifapi.Bool("cand.addrLocal")
			}
			md.Attributes = append(md.Attributes, sdp.Attribute{Key: key, Value: a.value})
		}
		d.MediaDescriptions = append(d.MediaDescriptions, md)
	}
	return nil
}

type verifCand struct {
	ice.Candidate
	a *verifAttr
}

func (c verifCand) Type() ice.CandidateType {
	if c.a.host {
		return ice.CandidateTypeHost
	}
	return ice.CandidateTypeServerReflexive
}
func (c verifCand) Address() string { return c.a.value }

type verifPoison struct{ ice.Candidate }

func (verifPoison) Type() ice.CandidateType {
	verifapi.Assert(false, "a candidate returned together with an error is used")
	return ice.CandidateTypeHost
}
func (verifPoison) Address() string {
	verifapi.Assert(false, "a candidate returned together with an error is used")
	return ""
}

func verifFind(value string) *verifAttr {
	for m := 0; m < 2; m++ {
		for k := 0; k < 3; k++ {
			if verifValues[m][k] == value {
				return &verifAttrs[m][k]
			}
		}
	}
	return nil
}
func verifUnmarshalCandidate(raw string) (ice.Candidate, error) {
	a := verifFind(raw)
	verifapi.Assert(a != nil, "the candidate parser is given exactly the attribute's value")
	if a.candFails {
		// results returned together with an error are unspecified: hand back an unusable value
		return verifPoison{}, errors.New("ice: malformed candidate (stub)")
	}
	return verifCand{a: a}, nil
}
func verifParseIP08(s string) net.IP {
	a := verifFind(s)
	if a.ipNil {
		return nil // a hostname / mDNS name, not an IP
	}
	if a.local {
		return net.IP{192, 168, 1, 7}
	}
	return net.IP{8, 8, 8, 8}
}
func verifSDPMarshal(d *sdp.SessionDescription) ([]byte, error) {
	verifMarshCall++
	verifMarshM = len(d.MediaDescriptions)
	for m := 0; m < len(d.MediaDescriptions) && m < 2; m++ {
		verifMarshN[m] = len(d.MediaDescriptions[m].Attributes)
		for k := 0; k < verifMarshN[m] && k < 3; k++ {
			verifMarshaled[m][k] = d.MediaDescriptions[m].Attributes[k].Value
		}
	}
	if verifapi.Bool("sdp.marshalFails") {
		verifMarFails = true
		return nil, errors.New("sdp: marshal (stub)")
	}
	return []byte("STRIPPED"), nil
}

func VerifC08_Filter() {
	out := StripLocalAddresses("INPUT")
	if verifUnmFails || verifMarFails {
		verifapi.Cover("description not parseable")
		verifapi.Assert(out == "INPUT", "an unparseable description is passed through unchanged (never a panic)")
		if verifUnmFails {
			return
		}
	} else {
		verifapi.Assert(out == "STRIPPED", "the stripped description is returned")
	}
	verifapi.Cover("description filtered")
	verifapi.Assert(verifMarshCall == 1 && verifMarshM == verifNMedia, "every media section is kept")
	for m := 0; m < verifNMedia; m++ {
		want := 0
		for k := 0; k < verifNAttr[m]; k++ {
			a := &verifAttrs[m][k]
			strip := a.isCand && !a.candFails && a.host && !a.ipNil && a.local
			if strip {
				verifapi.Cover("a local host candidate")
				continue
			}
			verifapi.Assert(want < verifMarshN[m], "every attribute that is not a local host candidate is kept")
			if want < verifMarshN[m] {
				verifapi.Assert(verifMarshaled[m][want] == a.value, "the kept attributes are the original ones, in their section and in order")
			}
			want++
		}
		verifapi.Assert(verifMarshN[m] == want, "exactly the local host candidates are removed")
	}
}
