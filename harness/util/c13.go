package util

// C13: untrusted session descriptions cannot crash client or proxy.
// encoding/json is reflection-based and cannot be encoded: json.Unmarshal into the
// map[string]interface{} is replaced (redirect stub) by "an error, or an arbitrary map":
// members "type"/"sdp"/one other key, each present or absent, each of any JSON dynamic type.
// In the native replay the same choices are drawn first, marshalled with the real
// encoding/json, and the real Unmarshal then produces exactly that map.

import (
	"encoding/json"
	"errors"

	"github.com/pion/webrtc/v3"

	"git.torproject.org/pluggable-transports/snowflake.git/v2/internal/verifapi"
)

var verifErrJSON = errors.New("json: syntax error (stub)")

func verifArbJSON(name string) interface{} {
	switch verifapi.Concrete(verifapi.Choice(name, 9)) {
	case 0:
		return nil
	case 1:
		return true
	case 2:
		return 1.5
	case 3:
		return verifapi.String(name+".s", 6)
	case 4:
		return []interface{}{}
	case 5:
		return map[string]interface{}{}
	case 6:
		return "offer"
	case 7:
		return "pranswer"
	default:
		return "answer"
	}
}

func verifArbMap() (map[string]interface{}, error) {
	if verifapi.Bool("json.err") {
		return nil, verifErrJSON
	}
	if verifapi.Bool("json.null") {
		return nil, nil // the JSON literal null leaves the map nil without an error
	}
	m := map[string]interface{}{}
	if verifapi.Bool("has.type") {
		m["type"] = verifArbJSON("type")
	}
	if verifapi.Bool("has.sdp") {
		m["sdp"] = verifArbJSON("sdp")
	}
	if verifapi.Bool("has.other") {
		m["x"+verifapi.String("key", 3)] = verifArbJSON("other")
	}
	return m, nil
}

// redirect stub for encoding/json.Unmarshal
func verifJSONUnmarshal(data []byte, v interface{}) error {
	m, err := verifArbMap()
	if err != nil {
		return err
	}
	*(v.(*map[string]interface{})) = m
	return nil
}

func VerifC13_DeserializeTotal() {
	var msg string
	if verifapi.Native() {
		// the empty message is an input of its own (nothing can be decoded from it); every other
		// message is realised from the decoding outcome the executor chose
		if raw := verifapi.String("msg", 4); raw == "" {
			msg = ""
		} else if m, err := verifArbMap(); err != nil {
			msg = "{not json"
		} else {
			b, _ := json.Marshal(m)
			msg = string(b)
		}
	} else {
		msg = verifapi.String("msg", 4)
	}
	desc, err := DeserializeSessionDescription(msg)
	verifapi.Cover("deserialize returned")
	verifapi.Assert((desc == nil) != (err == nil), "deserialisation returns a value or an error")
	if err == nil {
		verifapi.Cover("deserialize succeeded")
	}
}

// the four SDP types map back to themselves and the SDP text is kept
func verifJSONUnmarshalTyped(data []byte, v interface{}) error {
	t := webrtc.SDPType(verifapi.Concrete(verifapi.Choice("sdptype", 4)) + 1)
	*(v.(*map[string]interface{})) = map[string]interface{}{"type": t.String(), "sdp": verifapi.String("sdp", 6)}
	verifTypedWant = t
	return nil
}

var verifTypedWant webrtc.SDPType

func VerifC13_TypeTable() {
	sdpWant := ""
	var msg string
	if verifapi.Native() {
		t := webrtc.SDPType(verifapi.Concrete(verifapi.Choice("sdptype", 4)) + 1)
		sdpWant = verifapi.String("sdp", 6)
		verifTypedWant = t
		b, _ := json.Marshal(map[string]interface{}{"type": t.String(), "sdp": sdpWant})
		msg = string(b)
	}
	desc, err := DeserializeSessionDescription(msg)
	verifapi.Cover("typed description")
	verifapi.Assert(err == nil, "a description with a known type and an sdp string deserialises")
	verifapi.Assert(desc != nil, "a description is returned")
	verifapi.Assert(desc.Type == verifTypedWant, "the SDP type is the one named")
	if verifapi.Native() {
		verifapi.Assert(desc.SDP == sdpWant, "the SDP text is kept")
	}
}

// ---- round trip: Deserialize(Serialize(d)) == d --------------------------------------------
//
// encoding/json is reflection code the executor cannot run. Its part in this law is the mapping
// struct -> JSON object -> map[string]interface{}; verifapi.JSONMembers computes that mapping
// from the struct tags of whatever value the code under test hands to json.Marshal, and the
// Unmarshal stub yields it. Natively both functions are the real library.

var verifMarshalled interface{}

func verifJSONMarshalRT(v interface{}) ([]byte, error) {
	verifapi.Count("marshal")
	verifMarshalled = v
	return []byte("J"), nil
}

func verifJSONUnmarshalRT(data []byte, v interface{}) error {
	verifapi.Assert(verifapi.Counted("marshal") == 1, "round trip: exactly one document was marshalled")
	*(v.(*map[string]interface{})) = verifapi.JSONMembers(verifMarshalled, func(f interface{}) interface{} {
		// pion: func (t SDPType) MarshalJSON() ([]byte, error) { return json.Marshal(t.String()) }
		return f.(webrtc.SDPType).String()
	})
	return nil
}

func VerifC13_RoundTrip() {
	t := webrtc.SDPType(verifapi.Concrete(verifapi.Choice("sdptype", 4)) + 1)
	sdp := verifapi.String("sdp", int(verifapi.Param("SDPLEN", 6)))
	for i := 0; i < len(sdp); i++ {
		verifapi.Assume(sdp[i] < 0x80) // valid UTF-8 (JSON strings are Unicode text)
	}
	in := &webrtc.SessionDescription{Type: t, SDP: sdp}
	s, err := SerializeSessionDescription(in)
	verifapi.Assert(err == nil, "serialising a description of a known type succeeds")
	out, err := DeserializeSessionDescription(s)
	verifapi.Cover("round trip returned")
	verifapi.Assert(err == nil && out != nil, "deserialising a serialised description succeeds")
	verifapi.Assert(out.Type == t, "round trip keeps the SDP type")
	verifapi.Assert(out.SDP == sdp, "round trip keeps the SDP text")
	verifapi.Assert(in.Type == t && in.SDP == sdp, "serialising does not modify the description")
}
