package encapsulation

// Differential self-test of the interpreter: the repository's own kind of test inputs pushed
// through the real code; the interpreter (concrete mode) and the native run must agree.

import (
	"bytes"
	"io"
)

func VerifSelf_Encap() uint64 {
	var sum uint64
	var buf bytes.Buffer
	lens := []int{0, 1, 63, 64, 65, 8191, 8192, 8193}
	for i, n := range lens {
		p := make([]byte, n)
		for j := range p {
			p[j] = byte(i + j)
		}
		k, err := WriteData(&buf, p)
		if err != nil {
			sum += 1000003
		}
		sum = sum*31 + uint64(k)
		if i%2 == 0 {
			k, _ = WritePadding(&buf, 5+i*300)
			sum = sum*31 + uint64(k)
		}
	}
	for {
		p, err := ReadData(&buf)
		if err != nil {
			if err == io.EOF {
				sum = sum*31 + 7
			} else {
				sum = sum*31 + 9
			}
			break
		}
		sum = sum*31 + uint64(len(p))
		for _, b := range p {
			sum += uint64(b)
		}
	}
	for _, n := range []int{1, 2, 64, 65, 66, 8192, 8194, 1 << 20, 1<<20 + 5} {
		sum = sum*31 + uint64(MaxDataForSize(n))
	}
	for _, s := range [][]byte{{0xc0}, {0x40, 0x80, 0x80, 0x80}, {0x85, 1, 2}, {}, {0x02, 9, 9, 0x81, 7}} {
		p, err := ReadData(bytes.NewReader(s))
		sum = sum*31 + uint64(len(p))
		switch err {
		case nil:
			sum += 1
		case io.EOF:
			sum += 2
		case io.ErrUnexpectedEOF:
			sum += 3
		case ErrTooLong:
			sum += 4
		}
	}
	return sum
}
