package util

import (
	"errors"
	"fmt"
	"net"

	"git.torproject.org/pluggable-transports/snowflake.git/v2/internal/verifapi"
)

func VerifSelf_IsLocal() uint64 {
	var sum uint64
	ips := []net.IP{{10, 0, 0, 1}, {172, 15, 255, 255}, {172, 16, 0, 0}, {172, 31, 255, 255}, {172, 32, 0, 0}, {192, 168, 0, 1}, {100, 63, 255, 255},
		{100, 64, 0, 0}, {100, 127, 255, 255}, {100, 128, 0, 0}, {169, 254, 1, 1}, {8, 8, 8, 8}, {127, 0, 0, 1}, {0, 0, 0, 0},
		net.ParseIP("fc00::1"), net.ParseIP("fe80::1"), net.ParseIP("::1"), net.ParseIP("::"), net.ParseIP("::ffff:10.0.0.1"), net.ParseIP("2001:db8::1")}
	for _, ip := range ips {
		sum <<= 3
		if IsLocal(ip) {
			sum |= 1
		}
		if ip.IsUnspecified() {
			sum |= 2
		}
		if ip.IsLoopback() {
			sum |= 4
		}
		sum %= 1000000007
	}
	return sum
}

// ---- the struct -> JSON object model (engine/jsonmodel.go) against the real encoding/json ----

type verifSelfInner struct {
	A string `json:"a"`
	B int    `json:"b,omitempty"`
}
type verifSelfEmb struct {
	E1 string
	E2 bool `json:"e2,omitempty"`
}
type verifSelfDoc struct {
	Plain    string
	Renamed  string `json:"type"`
	Omit     string `json:"sdp,omitempty"`
	Dash     string `json:"-"`
	DashName string `json:"-,"`
	N        int    `json:"n"`
	U8       uint8  `json:",omitempty"`
	F        bool   `json:"f,omitempty"`
	hidden   string
	In       verifSelfInner  `json:"in"`
	P        *verifSelfInner `json:"p,omitempty"`
	Q        *verifSelfInner `json:"q"`
	R        *verifSelfInner `json:"r"`
	verifSelfEmb
	Other string `yaml:"x"`
}

func verifSelfFold(sum uint64, m map[string]interface{}, keys []string) uint64 {
	for _, k := range keys {
		sum = sum*31 + 1
		v, ok := m[k]
		if !ok {
			continue
		}
		switch x := v.(type) {
		case nil:
			sum += 2
		case string:
			sum += 3 + uint64(len(x))
			for i := 0; i < len(x); i++ {
				sum = sum*7 + uint64(x[i])
			}
		case float64:
			sum += 5
			for c := 0; c < 300; c++ {
				if x == float64(c) {
					sum += uint64(c)
				}
			}
			if x < 0 {
				sum += 1000
			}
		case bool:
			sum += 7
			if x {
				sum++
			}
		case map[string]interface{}:
			sum = verifSelfFold(sum+11, x, []string{"a", "b", "A", "B"})
		default:
			sum += 13
		}
		sum %= 1000000007
	}
	return sum
}

func VerifSelf_JSON() uint64 {
	keys := []string{"Plain", "Renamed", "type", "Omit", "sdp", "Dash", "-", "DashName", "n", "N", "U8", "f", "F", "hidden", "in", "In",
		"p", "P", "q", "Q", "E1", "e2", "E2", "verifSelfEmb", "Other", "x"}
	docs := []verifSelfDoc{
		{},
		{Plain: "p", Renamed: "offer", Omit: "v=0", Dash: "d", DashName: "dn", N: 7, U8: 200, F: true, hidden: "h",
			In: verifSelfInner{A: "x", B: 3}, P: &verifSelfInner{A: "", B: 0}, Q: &verifSelfInner{B: 255},
			verifSelfEmb: verifSelfEmb{E1: "e", E2: true}, Other: "o"},
		{Renamed: "", Omit: "", N: -4, In: verifSelfInner{B: 0}, Q: nil, verifSelfEmb: verifSelfEmb{E2: false}},
	}
	var sum uint64
	for i := range docs {
		sum = verifSelfFold(sum, verifapi.JSONMembers(docs[i], nil), keys)
		sum = verifSelfFold(sum, verifapi.JSONMembers(&docs[i], nil), keys)
	}
	return sum
}

type verifSelfTarget struct {
	PLAIN   string // case-insensitive match of "Plain"
	Type    string
	Sdp     *string `json:"sdp"`
	N       int8    `json:"n"` // range
	U8      int
	F       string      `json:"f"` // wrong kind: type error, field kept
	In      interface{} `json:"in"`
	P       verifSelfInner
	Q       *verifSelfInner `json:"q"`
	E1      []byte          `json:"-"`
	E2      bool            `json:"e2"`
	Other   float64         `json:"n2"`
	Missing string
	Any     map[string]interface{} `json:"p2"`
	R       verifSelfInner         `json:"r"`
}

func VerifSelf_JSONTransfer() uint64 {
	docs := []verifSelfDoc{
		{},
		{Plain: "p", Renamed: "offer", Omit: "v=0", N: 7, U8: 200, F: true,
			In: verifSelfInner{A: "x", B: 3}, P: &verifSelfInner{A: "pa", B: 9}, Q: &verifSelfInner{B: 255},
			verifSelfEmb: verifSelfEmb{E1: "e", E2: true}},
		{N: -129, In: verifSelfInner{B: 0}},
		{N: 127, Omit: "", P: &verifSelfInner{}},
		{N: -128, U8: 1, R: &verifSelfInner{A: "rr", B: 6}},
	}
	var sum uint64
	for i := range docs {
		keep := "kept"
		tgt := verifSelfTarget{PLAIN: "old", Type: "oldtype", Sdp: &keep, N: 5, F: "fold", Missing: "m", Q: &verifSelfInner{A: "qa", B: 1}, R: verifSelfInner{A: "ra", B: 4}}
		ok := verifapi.JSONTransfer(docs[i], &tgt, nil)
		sum = sum*31 + 1
		if ok {
			sum += 2
		}
		for _, s := range []string{tgt.PLAIN, tgt.Type, tgt.F, tgt.Missing, tgt.P.A, tgt.R.A} {
			sum = sum*7 + uint64(len(s))
			for k := 0; k < len(s); k++ {
				sum = sum*3 + uint64(s[k])
			}
		}
		if tgt.Sdp == nil {
			sum += 5
		} else {
			sum += uint64(len(*tgt.Sdp)) * 11
		}
		sum = sum*13 + uint64(int64(tgt.N)+1000) + uint64(tgt.U8)*17 + uint64(tgt.P.B)*19 + uint64(tgt.R.B)*41
		if tgt.Q == nil {
			sum += 23
		} else {
			sum += uint64(tgt.Q.B)*29 + uint64(len(tgt.Q.A))
		}
		if tgt.E2 {
			sum += 31
		}
		if m, isMap := tgt.In.(map[string]interface{}); isMap {
			sum = verifSelfFold(sum, m, []string{"a", "b"})
		}
		sum %= 1000000007
		// and into a generic map
		var g map[string]interface{}
		if verifapi.JSONTransfer(&docs[i], &g, nil) {
			sum = verifSelfFold(sum+37, g, []string{"Plain", "type", "sdp", "n", "U8", "f", "in", "p", "q", "E1", "e2"})
		}
	}
	return sum
}

// ---- fmt.Fprint* to a writer (engine/fmtmodel.go) against the real fmt ----

type verifSelfW struct{ b []byte }

func (w *verifSelfW) Write(p []byte) (int, error) { w.b = append(w.b, p...); return len(p), nil }

type verifSelfName string

func VerifSelf_Fprint() uint64 {
	w := &verifSelfW{}
	fmt.Fprintf(w, "a%sb%sc%d%%", "S", []byte("by"), 42)
	fmt.Fprintf(w, "plain\n")
	fmt.Fprintf(w, "%s/%v/%d", verifSelfName("nm"), errors.New("boom"), int8(-3))
	fmt.Fprintln(w, "x", "y")
	fmt.Fprintln(w, "only")
	fmt.Fprint(w, "p", "q")
	fmt.Fprint(w, "n", 7, 8, "m")
	n, err := fmt.Fprintf(w, "%d", uint16(65535))
	var sum uint64 = uint64(n)
	if err == nil {
		sum += 100
	}
	for _, c := range w.b {
		sum = (sum*131 + uint64(c)) % 1000000007
	}
	return sum + uint64(len(w.b))*1000000007
}
