package util

import "net"

func VerifSelf_IsLocal() uint64 {
	var sum uint64
	ips := []net.IP{{10, 0, 0, 1}, {172, 15, 255, 255}, {172, 16, 0, 0}, {172, 31, 255, 255}, {172, 32, 0, 0}, {192, 168, 0, 1}, {100, 63, 255, 255},
		{100, 64, 0, 0}, {100, 127, 255, 255}, {100, 128, 0, 0}, {169, 254, 1, 1}, {8, 8, 8, 8}, {127, 0, 0, 1}, {0, 0, 0, 0},
		net.ParseIP("fc00::1"), net.ParseIP("fe80::1"), net.ParseIP("::1"), net.ParseIP("::"), net.ParseIP("::ffff:10.0.0.1"), net.ParseIP("2001:db8::1")}
	for _, ip := range ips {
		sum <<= 3
		if IsLocal(ip) {
			sum |= 1
		}
		if ip.IsUnspecified() {
			sum |= 2
		}
		if ip.IsLoopback() {
			sum |= 4
		}
		sum %= 1000000007
	}
	return sum
}
