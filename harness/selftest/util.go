package util

import (
	"net"

	"git.torproject.org/pluggable-transports/snowflake.git/v2/internal/verifapi"
)

func VerifSelf_IsLocal() uint64 {
	var sum uint64
	ips := []net.IP{{10, 0, 0, 1}, {172, 15, 255, 255}, {172, 16, 0, 0}, {172, 31, 255, 255}, {172, 32, 0, 0}, {192, 168, 0, 1}, {100, 63, 255, 255},
		{100, 64, 0, 0}, {100, 127, 255, 255}, {100, 128, 0, 0}, {169, 254, 1, 1}, {8, 8, 8, 8}, {127, 0, 0, 1}, {0, 0, 0, 0},
		net.ParseIP("fc00::1"), net.ParseIP("fe80::1"), net.ParseIP("::1"), net.ParseIP("::"), net.ParseIP("::ffff:10.0.0.1"), net.ParseIP("2001:db8::1")}
	for _, ip := range ips {
		sum <<= 3
		if IsLocal(ip) {
			sum |= 1
		}
		if ip.IsUnspecified() {
			sum |= 2
		}
		if ip.IsLoopback() {
			sum |= 4
		}
		sum %= 1000000007
	}
	return sum
}

// ---- the struct -> JSON object model (engine/jsonmodel.go) against the real encoding/json ----

type verifSelfInner struct {
	A string `json:"a"`
	B int    `json:"b,omitempty"`
}
type verifSelfEmb struct {
	E1 string
	E2 bool `json:"e2,omitempty"`
}
type verifSelfDoc struct {
	Plain    string
	Renamed  string `json:"type"`
	Omit     string `json:"sdp,omitempty"`
	Dash     string `json:"-"`
	DashName string `json:"-,"`
	N        int    `json:"n"`
	U8       uint8  `json:",omitempty"`
	F        bool   `json:"f,omitempty"`
	hidden   string
	In       verifSelfInner  `json:"in"`
	P        *verifSelfInner `json:"p,omitempty"`
	Q        *verifSelfInner `json:"q"`
	verifSelfEmb
	Other string `yaml:"x"`
}

func verifSelfFold(sum uint64, m map[string]interface{}, keys []string) uint64 {
	for _, k := range keys {
		sum = sum*31 + 1
		v, ok := m[k]
		if !ok {
			continue
		}
		switch x := v.(type) {
		case nil:
			sum += 2
		case string:
			sum += 3 + uint64(len(x))
			for i := 0; i < len(x); i++ {
				sum = sum*7 + uint64(x[i])
			}
		case float64:
			sum += 5
			for c := 0; c < 300; c++ {
				if x == float64(c) {
					sum += uint64(c)
				}
			}
			if x < 0 {
				sum += 1000
			}
		case bool:
			sum += 7
			if x {
				sum++
			}
		case map[string]interface{}:
			sum = verifSelfFold(sum+11, x, []string{"a", "b", "A", "B"})
		default:
			sum += 13
		}
		sum %= 1000000007
	}
	return sum
}

func VerifSelf_JSON() uint64 {
	keys := []string{"Plain", "Renamed", "type", "Omit", "sdp", "Dash", "-", "DashName", "n", "N", "U8", "f", "F", "hidden", "in", "In",
		"p", "P", "q", "Q", "E1", "e2", "E2", "verifSelfEmb", "Other", "x"}
	docs := []verifSelfDoc{
		{},
		{Plain: "p", Renamed: "offer", Omit: "v=0", Dash: "d", DashName: "dn", N: 7, U8: 200, F: true, hidden: "h",
			In: verifSelfInner{A: "x", B: 3}, P: &verifSelfInner{A: "", B: 0}, Q: &verifSelfInner{B: 255},
			verifSelfEmb: verifSelfEmb{E1: "e", E2: true}, Other: "o"},
		{Renamed: "", Omit: "", N: -4, In: verifSelfInner{B: 0}, Q: nil, verifSelfEmb: verifSelfEmb{E2: false}},
	}
	var sum uint64
	for i := range docs {
		sum = verifSelfFold(sum, verifapi.JSONMembers(docs[i], nil), keys)
		sum = verifSelfFold(sum, verifapi.JSONMembers(&docs[i], nil), keys)
	}
	return sum
}
