package main

import "container/heap"

func VerifSelf_Heap() uint64 {
	var sum uint64
	h := new(SnowflakeHeap)
	heap.Init(h)
	counts := []int{5, 3, 8, 1, 9, 3, 7, 0, 4}
	var sfs []*Snowflake
	for i, c := range counts {
		s := &Snowflake{id: string(rune('a' + i)), clients: c}
		sfs = append(sfs, s)
		heap.Push(h, s)
	}
	heap.Remove(h, sfs[2].index)
	heap.Remove(h, sfs[7].index)
	for h.Len() > 0 {
		s := heap.Pop(h).(*Snowflake)
		sum = sum*31 + uint64(s.clients)*7 + uint64(s.id[0])
		if s.index != -1 {
			sum += 1000
		}
	}
	return sum
}
