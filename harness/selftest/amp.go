package amp

func VerifSelf_Path() uint64 {
	var sum uint64
	for _, p := range []string{"", "0", "1/x", "0/", "0abc/Zm9v", "0a/b/c/Zm9vYmFy", "0//-_-_", "0/!!!", "0pad/AAECAwQFBgcICQ"} {
		d, err := DecodePath(p)
		sum = sum*31 + uint64(len(d))
		if err != nil {
			sum += 17
		}
		for _, b := range d {
			sum += uint64(b)
		}
	}
	for _, s := range []string{"a b", " a\tb\n", "", "abc", "  ", "a\x0cb"} {
		adv, tok, _ := splitASCIIWhitespace([]byte(s), true)
		sum = sum*31 + uint64(adv)*5 + uint64(len(tok))
	}
	return sum
}
