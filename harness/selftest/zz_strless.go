package amp

import "git.torproject.org/pluggable-transports/snowflake.git/v2/internal/verifapi"

// engine self-check: ordering comparison of strings against a byte-wise reference
func VerifSelf_StrLess() {
	a := verifapi.String("a", 3)
	b := verifapi.String("b", 3)
	ref, decided := false, false
	for i := 0; i < len(a) && i < len(b) && !decided; i++ {
		if a[i] != b[i] {
			ref, decided = a[i] < b[i], true
		}
	}
	if !decided {
		ref = len(a) < len(b)
	}
	verifapi.Cover("compared")
	verifapi.Assert((a < b) == ref, "a < b is the lexicographic byte order")
	verifapi.Assert((a >= b) == !ref, "a >= b")
	verifapi.Assert((b > a) == ref, "b > a")
	verifapi.Assert((a <= b) == (ref || a == b), "a <= b")
	verifapi.Assert(("1.10" < "1.2") && !("1.2" < "1.10"), "literals")
	v := "1." + verifapi.String("minor", 2)
	if v == "1.10" {
		verifapi.Assert(v < "1.2", "a computed 1.10 sorts before 1.2")
	}
	if verifapi.Param("wrong", 0) == 1 {
		verifapi.Assert((a < b) == (ref || a == b), "deliberately wrong (must be violated)")
	}
}
