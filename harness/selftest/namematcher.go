package namematcher

import "strings"

func VerifSelf_Matcher() uint64 {
	var sum uint64
	pats := []string{"", "^", "$", "^$", "torproject.net$", "^snowflake.torproject.net$", "snowflake.torproject.net", "^a", "net$", "example.com"}
	hosts := []string{"", "snowflake.torproject.net", "02.snowflake.torproject.net", "example.com", "faketorproject.net", "a"}
	for _, p := range pats {
		m := NewNameMatcher(p)
		if IsValidRule(p) {
			sum++
		}
		for _, h := range hosts {
			sum <<= 1
			if m.IsMember(h) {
				sum |= 1
			}
			sum %= 1000000007
		}
		for _, q := range pats {
			sum = sum * 3
			if m.IsSupersetOf(NewNameMatcher(q)) {
				sum++
			}
			sum %= 1000000007
		}
	}
	return sum
}

func VerifSelf_Strings() uint64 {
	var sum uint64
	for _, d := range []string{"a-b-c.com", "", "--", "a.b", "xn--abc.example", "no-dots", "a--b"} {
		r := strings.Replace(strings.Replace(d, "-", "--", -1), ".", "-", -1)
		sum = sum*131 + uint64(len(r))
		for i := 0; i < len(r); i++ {
			sum = sum*31 + uint64(r[i])
		}
		sum %= 1000000007
		if strings.HasSuffix(r, "com") {
			sum += 5
		}
		sum += uint64(strings.Count(r, "-")) + uint64(strings.Index(r, "b")+1) + uint64(strings.LastIndexByte(r, '-')+1)
		var sb strings.Builder
		sb.WriteString(d)
		sb.WriteByte('!')
		sum += uint64(len(sb.String()))
	}
	return sum
}
