package namematcher

func VerifSelf_Matcher() uint64 {
	var sum uint64
	pats := []string{"", "^", "$", "^$", "torproject.net$", "^snowflake.torproject.net$", "snowflake.torproject.net", "^a", "net$", "example.com"}
	hosts := []string{"", "snowflake.torproject.net", "02.snowflake.torproject.net", "example.com", "faketorproject.net", "a"}
	for _, p := range pats {
		m := NewNameMatcher(p)
		if IsValidRule(p) {
			sum++
		}
		for _, h := range hosts {
			sum <<= 1
			if m.IsMember(h) {
				sum |= 1
			}
			sum %= 1000000007
		}
		for _, q := range pats {
			sum = sum * 3
			if m.IsSupersetOf(NewNameMatcher(q)) {
				sum++
			}
			sum %= 1000000007
		}
	}
	return sum
}
