package main

// C18 (server binary): every accepted connection is handed to the bridge by its own handler -
// never another session's connection, never twice - and handleConn tells the bridge exactly the
// connection's own address string.

import (
	"errors"
	"net"
	"time"

	pt "git.torproject.org/pluggable-transports/goptlib.git"

	"git.torproject.org/pluggable-transports/snowflake.git/v2/internal/verifapi"
)

type verifAddr string

func (a verifAddr) Network() string { return "snowflake" }
func (a verifAddr) String() string  { return string(a) }

type verifConn struct {
	id      int
	addr    verifAddr
	handled int
	closed  int
}

func (c *verifConn) Read(p []byte) (int, error)         { return 0, errors.New("closed") }
func (c *verifConn) Write(p []byte) (int, error)        { return len(p), nil }
func (c *verifConn) Close() error                       { c.closed++; return nil }
func (c *verifConn) LocalAddr() net.Addr                { return nil }
func (c *verifConn) RemoteAddr() net.Addr               { return c.addr }
func (c *verifConn) SetDeadline(t time.Time) error      { return nil }
func (c *verifConn) SetReadDeadline(t time.Time) error  { return nil }
func (c *verifConn) SetWriteDeadline(t time.Time) error { return nil }

type verifListener struct {
	conns []*verifConn
	next  int
}

func (l *verifListener) Accept() (net.Conn, error) {
	verifapi.Yield() // handlers of earlier connections may run before, between or after accepts
	if l.next >= len(l.conns) {
		return nil, errors.New("listener closed (stub)")
	}
	c := l.conns[l.next]
	l.next++
	return c, nil
}
func (l *verifListener) Close() error   { return nil }
func (l *verifListener) Addr() net.Addr { return nil }

// redirect stub for handleConn in the accept-loop job
func verifHandleConn(conn net.Conn) error {
	conn.(*verifConn).handled++
	return nil
}

func VerifC18_AcceptLoop() {
	ln := &verifListener{conns: []*verifConn{{id: 1, addr: "198.51.100.1:1"}, {id: 2, addr: "203.0.113.2:1"}}}
	acceptLoop(ln)
	verifapi.Quiesce()
	verifapi.Cover("accept loop ended")
	for _, c := range ln.conns {
		verifapi.Assert(c.handled == 1, "C18: every accepted connection is handled exactly once, by its own handler (no handler picks up another session's connection)")
		verifapi.Assert(c.closed >= 1, "an accepted connection is closed when its handler returns")
	}
}

// ---- handleConn: what the bridge is told ----

var verifTold string

func verifDialOr(info *pt.ServerInfo, addr, methodName string) (*net.TCPConn, error) {
	verifTold = addr
	return nil, errors.New("ORPort unreachable (stub)")
}

func VerifC18_HandleConn() {
	statsChannel = make(chan bool, 1)
	a := verifAddr(verifapi.String("addr", 3))
	err := handleConn(&verifConn{addr: a})
	verifapi.Cover("handleConn returned")
	verifapi.Assert(err != nil, "the stubbed ORPort is unreachable")
	verifapi.Assert(verifTold == string(a), "C18: the bridge is told exactly the connection's own address string (empty means none)")
	verifapi.Assert(len(statsChannel) == 1, "the statistics are told whether an address was present")
	verifapi.Assert(<-statsChannel == (a != ""), "the statistics are told whether an address was present")
}
