package snowflake_proxy

// C08 (c), proxy side.

import (
	"errors"
	"io"
	"net/url"

	"github.com/pion/webrtc/v3"

	"git.torproject.org/pluggable-transports/snowflake.git/v2/internal/verifapi"
)

var (
	verifSerialized08 *webrtc.SessionDescription
	verifStripCalls08 int
)

func verifStrip08(s string) string { verifStripCalls08++; return "STRIPPED:" + s }
func verifSerialize08(d *webrtc.SessionDescription) (string, error) {
	verifSerialized08 = d
	return "serialized", nil
}
func verifLocalDescription08(pc *webrtc.PeerConnection) *webrtc.SessionDescription {
	return &webrtc.SessionDescription{Type: webrtc.SDPTypeAnswer, SDP: "ORIGINAL"}
}
func verifPost08(s *SignalingServer, path string, payload io.Reader) ([]byte, error) {
	return nil, errors.New("broker unreachable (stub)")
}

func VerifC08_ProxyCallSite() {
	keep := verifapi.Bool("keepLocalAddresses")
	s := &SignalingServer{url: &url.URL{}, keepLocalAddresses: keep}
	err := s.sendAnswer("sid", new(webrtc.PeerConnection))
	verifapi.Assert(err != nil, "the stubbed broker is unreachable")
	verifapi.Assert(verifSerialized08 != nil && verifSerialized08.Type == webrtc.SDPTypeAnswer, "the answer is serialised with its type unchanged")
	if keep {
		verifapi.Cover("proxy keeps local addresses")
		verifapi.Assert(verifSerialized08.SDP == "ORIGINAL" && verifStripCalls08 == 0, "with keep-local set the answer is sent as it is")
	} else {
		verifapi.Cover("proxy strips local addresses")
		verifapi.Assert(verifSerialized08.SDP == "STRIPPED:ORIGINAL", "unless local addresses are explicitly kept the answer sent to the broker is the stripped one")
	}
}
