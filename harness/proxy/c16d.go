package snowflake_proxy

// C16 / C13: the two functions that build a peer connection return a connection or an error -
// never neither - for every combination of failures of the pion calls they make, and a
// connection they give up on is closed.  (runSession hands the result straight to sendAnswer:
// a nil connection without an error crashes the proxy with its slot still taken.)

import (
	"errors"
	"net"
	"time"

	"github.com/pion/webrtc/v3"

	"git.torproject.org/pluggable-transports/snowflake.git/v2/internal/verifapi"
)

var (
	verifErrPion   = errors.New("pion error (stub)")
	verifPCs16d    int
	verifCloses16d int
)

func verifNewPC16d(api *webrtc.API, cfg webrtc.Configuration) (*webrtc.PeerConnection, error) {
	if verifapi.Bool("NewPeerConnection.fails") {
		return nil, verifErrPion
	}
	verifPCs16d++
	return new(webrtc.PeerConnection), nil
}
func verifOnDataChannel16d(pc *webrtc.PeerConnection, f func(*webrtc.DataChannel)) {}
func verifGathering16d(pc *webrtc.PeerConnection) <-chan struct{} {
	ch := make(chan struct{})
	close(ch)
	return ch
}
func verifSetRemote16d(pc *webrtc.PeerConnection, d webrtc.SessionDescription) error {
	if verifapi.Bool("SetRemoteDescription.fails") { // e.g. an offer pion rejects
		return verifErrPion
	}
	return nil
}
func verifCreateAnswer16d(pc *webrtc.PeerConnection, o *webrtc.AnswerOptions) (webrtc.SessionDescription, error) {
	if verifapi.Bool("CreateAnswer.fails") {
		return webrtc.SessionDescription{}, verifErrPion
	}
	return webrtc.SessionDescription{Type: webrtc.SDPTypeAnswer, SDP: "answer"}, nil
}
func verifCreateOffer16d(pc *webrtc.PeerConnection, o *webrtc.OfferOptions) (webrtc.SessionDescription, error) {
	if verifapi.Bool("CreateOffer.fails") {
		return webrtc.SessionDescription{}, verifErrPion
	}
	return webrtc.SessionDescription{Type: webrtc.SDPTypeOffer, SDP: "offer"}, nil
}
func verifSetLocal16d(pc *webrtc.PeerConnection, d webrtc.SessionDescription) error {
	if verifapi.Bool("SetLocalDescription.fails") {
		return verifErrPion
	}
	return nil
}
func verifCreateDC16d(pc *webrtc.PeerConnection, label string, o *webrtc.DataChannelInit) (*webrtc.DataChannel, error) {
	if verifapi.Bool("CreateDataChannel.fails") {
		return nil, verifErrPion
	}
	return new(webrtc.DataChannel), nil
}
func verifDCOnOpen16d(dc *webrtc.DataChannel, f func())  {}
func verifDCOnClose16d(dc *webrtc.DataChannel, f func()) {}
func verifPCClose16d(pc *webrtc.PeerConnection) error {
	verifCloses16d++
	if verifapi.Bool("Close.fails") {
		return verifErrPion
	}
	return nil
}

func VerifC16_MakePeerConnection() {
	sf := &SnowflakeProxy{}
	var pc *webrtc.PeerConnection
	var err error
	if verifapi.Bool("from offer") {
		pc, err = sf.makePeerConnectionFromOffer(&webrtc.SessionDescription{Type: webrtc.SDPTypeOffer, SDP: "offer"}, webrtc.Configuration{}, make(chan struct{}), func(conn *webRTCConn, remoteAddr net.Addr) {})
		verifapi.Cover("peer connection from an offer")
	} else {
		pc, err = sf.makeNewPeerConnection(webrtc.Configuration{}, make(chan struct{}))
		verifapi.Cover("new peer connection (NAT probe)")
	}
	verifapi.Assert((pc == nil) != (err == nil), "C16/C13: a peer connection or an error - never neither (the caller uses the connection whenever there is no error)")
	if err != nil && verifPCs16d == 1 {
		verifapi.Cover("gave up on a created connection")
	}
}

// ---- the real OnDataChannel callback, data channel opened early ----------------------------------
//
// runSession with the real makePeerConnectionFromOffer: the client's data channel may open as
// soon as the answer has reached it - before sendAnswer has returned to runSession. The session
// then belongs to the data channel handler: runSession must not take the timeout path and give
// the slot back a second time.

var (
	verifODC        func(*webrtc.DataChannel)
	verifHandlerRan int
)

func verifOnDataChannelCapture(pc *webrtc.PeerConnection, f func(*webrtc.DataChannel)) { verifODC = f }
func verifDCOnMessage16d(dc *webrtc.DataChannel, f func(webrtc.DataChannelMessage))    {}
func verifRemoteDescription16d(pc *webrtc.PeerConnection) *webrtc.SessionDescription {
	return &webrtc.SessionDescription{Type: webrtc.SDPTypeOffer, SDP: "sdp"}
}
func verifRemoteIP16d(sdp string) net.IP { return nil }
func verifPollOffer16d(s *SignalingServer, sid string, proxyType string, pattern string, shutdown chan struct{}) (*webrtc.SessionDescription, string) {
	return &webrtc.SessionDescription{Type: webrtc.SDPTypeOffer, SDP: "sdp"}, ""
}

// the answer reaches the client, which opens its data channel at once (pion runs the callback
// on its own goroutine; here it has finished before sendAnswer returns)
func verifSendAnswerEarlyOpen(s *SignalingServer, sid string, pc *webrtc.PeerConnection) error {
	verifAnswered = true
	verifODC(new(webrtc.DataChannel))
	return nil
}

var verifAnswered bool

func verifNewBytesLogger16d() bytesLogger { return bytesNullLogger{} }

// the data channel handler owns the slot from here on; it runs until the client leaves
func verifDCHandlerHold(sf *SnowflakeProxy, conn *webRTCConn, remoteAddr net.Addr, relayURL string) {
	verifHandlerRan++
}

// the 20 s timeout has not expired yet when sendAnswer returns: it never fires in this scenario,
// so a session whose "opened" signal got lost shows as runSession waiting for ever
func verifAfterNever(d time.Duration) <-chan time.Time { return make(chan time.Time) }

func VerifC16_EarlyDataChannel() {
	tokens = newTokens(1)
	broker = &SignalingServer{}
	sf := &SnowflakeProxy{RelayDomainNamePattern: "$", shutdown: make(chan struct{})}
	tokens.get()
	returned := false
	go func() {
		sf.runSession("sid")
		returned = true
	}()
	verifapi.Quiesce()
	verifapi.Assert(returned, "C16: runSession notices a data channel that opened before sendAnswer returned")
	if !verifAnswered { // a pion failure before the answer: no session (make-pc / runsession jobs)
		verifapi.Assert(tokens.count() == 0, "C16: a session that ends without an open data channel releases its slot exactly once")
		return
	}
	verifapi.Cover("data channel opened before sendAnswer returned")
	verifapi.Assert(verifHandlerRan == 1, "the data channel handler was started once")
	verifapi.Assert(tokens.count() == 1, "C16: a session whose data channel is open keeps its slot - runSession does not give it back behind the handler's back, however early the channel opened")
	verifapi.Assert(verifCloses16d == 0, "C16: an opened session is not torn down by runSession")
}
