package snowflake_proxy

// C16 / C13: the two functions that build a peer connection return a connection or an error -
// never neither - for every combination of failures of the pion calls they make, and a
// connection they give up on is closed.  (runSession hands the result straight to sendAnswer:
// a nil connection without an error crashes the proxy with its slot still taken.)

import (
	"errors"
	"net"

	"github.com/pion/webrtc/v3"

	"git.torproject.org/pluggable-transports/snowflake.git/v2/internal/verifapi"
)

var (
	verifErrPion   = errors.New("pion error (stub)")
	verifPCs16d    int
	verifCloses16d int
)

func verifNewPC16d(api *webrtc.API, cfg webrtc.Configuration) (*webrtc.PeerConnection, error) {
	if verifapi.Bool("NewPeerConnection.fails") {
		return nil, verifErrPion
	}
	verifPCs16d++
	return new(webrtc.PeerConnection), nil
}
func verifOnDataChannel16d(pc *webrtc.PeerConnection, f func(*webrtc.DataChannel)) {}
func verifGathering16d(pc *webrtc.PeerConnection) <-chan struct{} {
	ch := make(chan struct{})
	close(ch)
	return ch
}
func verifSetRemote16d(pc *webrtc.PeerConnection, d webrtc.SessionDescription) error {
	if verifapi.Bool("SetRemoteDescription.fails") { // e.g. an offer pion rejects
		return verifErrPion
	}
	return nil
}
func verifCreateAnswer16d(pc *webrtc.PeerConnection, o *webrtc.AnswerOptions) (webrtc.SessionDescription, error) {
	if verifapi.Bool("CreateAnswer.fails") {
		return webrtc.SessionDescription{}, verifErrPion
	}
	return webrtc.SessionDescription{Type: webrtc.SDPTypeAnswer, SDP: "answer"}, nil
}
func verifCreateOffer16d(pc *webrtc.PeerConnection, o *webrtc.OfferOptions) (webrtc.SessionDescription, error) {
	if verifapi.Bool("CreateOffer.fails") {
		return webrtc.SessionDescription{}, verifErrPion
	}
	return webrtc.SessionDescription{Type: webrtc.SDPTypeOffer, SDP: "offer"}, nil
}
func verifSetLocal16d(pc *webrtc.PeerConnection, d webrtc.SessionDescription) error {
	if verifapi.Bool("SetLocalDescription.fails") {
		return verifErrPion
	}
	return nil
}
func verifCreateDC16d(pc *webrtc.PeerConnection, label string, o *webrtc.DataChannelInit) (*webrtc.DataChannel, error) {
	if verifapi.Bool("CreateDataChannel.fails") {
		return nil, verifErrPion
	}
	return new(webrtc.DataChannel), nil
}
func verifDCOnOpen16d(dc *webrtc.DataChannel, f func())  {}
func verifDCOnClose16d(dc *webrtc.DataChannel, f func()) {}
func verifPCClose16d(pc *webrtc.PeerConnection) error {
	verifCloses16d++
	if verifapi.Bool("Close.fails") {
		return verifErrPion
	}
	return nil
}

func VerifC16_MakePeerConnection() {
	sf := &SnowflakeProxy{}
	var pc *webrtc.PeerConnection
	var err error
	if verifapi.Bool("from offer") {
		pc, err = sf.makePeerConnectionFromOffer(&webrtc.SessionDescription{Type: webrtc.SDPTypeOffer, SDP: "offer"}, webrtc.Configuration{}, make(chan struct{}), func(conn *webRTCConn, remoteAddr net.Addr) {})
		verifapi.Cover("peer connection from an offer")
	} else {
		pc, err = sf.makeNewPeerConnection(webrtc.Configuration{}, make(chan struct{}))
		verifapi.Cover("new peer connection (NAT probe)")
	}
	verifapi.Assert((pc == nil) != (err == nil), "C16/C13: a peer connection or an error - never neither (the caller uses the connection whenever there is no error)")
	if err != nil && verifPCs16d == 1 {
		verifapi.Cover("gave up on a created connection")
	}
}
