package snowflake_proxy

// C20 (proxy): events are dispatched from several goroutines at once (every session's data
// channel reports "connection over"), while the periodic summary task reads and resets the
// totals. The event bus and the summary logger run for real.

import (
	"io"
	"log"

	"git.torproject.org/pluggable-transports/snowflake.git/v2/common/event"
	"git.torproject.org/pluggable-transports/snowflake.git/v2/internal/verifapi"
)

func verifLoggerPrintf20(l *log.Logger, format string, v ...interface{}) {}

func VerifC20_ProxyEvents() {
	bus := event.NewSnowflakeEventDispatcher()
	el := &logEventLogger{logger: log.New(io.Discard, "", 0)}
	bus.AddSnowflakeEventListener(el)
	done := make(chan bool, 3)
	for g := 0; g < 2; g++ {
		go func() {
			bus.OnNewSnowflakeEvent(event.EventOnProxyConnectionOver{InboundTraffic: 1, OutboundTraffic: 2})
			done <- true
		}()
	}
	go func() {
		el.logTick() // what the periodic task runs
		done <- true
	}()
	<-done
	<-done
	<-done
	verifapi.Cover("events and a summary tick ran concurrently")
}
