package snowflake_proxy

// C16: the relay copy loop ends - and with it the session, whose deferred calls release the slot
// - as soon as either direction ends, however it ends (clean EOF, error, closed pipe) or when the
// proxy shuts down; both connections are closed afterwards and no copier goroutine stays behind.

import (
	"errors"
	"io"
	"sync"

	"git.torproject.org/pluggable-transports/snowflake.git/v2/internal/verifapi"
)

type verifEnd struct {
	events chan int // what the next Read returns: 0 clean EOF, 1 error, 2 io.ErrClosedPipe, 3 one byte of data
	closed chan struct{}
	once   sync.Once
	closes int
}

var verifErrIO = errors.New("i/o error (stub)")

func newVerifEnd() *verifEnd {
	return &verifEnd{events: make(chan int, 2), closed: make(chan struct{})}
}
func (p *verifEnd) Read(b []byte) (int, error) {
	select {
	case ev := <-p.events:
		switch ev {
		case 0:
			return 0, io.EOF
		case 1:
			return 0, verifErrIO
		case 2:
			return 0, io.ErrClosedPipe
		}
		b[0] = 'x'
		return 1, nil
	case <-p.closed:
		return 0, io.ErrClosedPipe
	}
}
func (p *verifEnd) Write(b []byte) (int, error) {
	select {
	case <-p.closed:
		return 0, io.ErrClosedPipe
	default:
		return len(b), nil
	}
}
func (p *verifEnd) Close() error {
	p.closes++
	p.once.Do(func() { close(p.closed) })
	return nil
}

func VerifC16_CopyLoop() {
	c1, c2 := newVerifEnd(), newVerifEnd()
	shutdown := make(chan struct{})
	returned := false
	go func() {
		copyLoop(c1, c2, shutdown)
		returned = true
	}()
	how := verifapi.Concrete(verifapi.Choice("ending", 4))
	side := c1
	if verifapi.Bool("relay side ends") {
		side = c2
	}
	if verifapi.Bool("data first") {
		side.events <- 3
	}
	if how == 3 {
		close(shutdown)
		verifapi.Cover("copy loop: proxy shuts down")
	} else {
		side.events <- how
		if how == 0 {
			verifapi.Cover("copy loop: one side ends cleanly")
		}
	}
	verifapi.Quiesce()
	verifapi.Assert(returned, "C16: the copy loop returns once either direction has ended (so the session's slot is released)")
	verifapi.Assert(c1.closes > 0 && c2.closes > 0, "C16: both connections are closed when the copy loop ends")
	verifapi.Assert(verifapi.LiveGoroutines("copyLoop") == 0, "C16: no copier goroutine outlives the copy loop")
}
