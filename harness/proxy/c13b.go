package snowflake_proxy

// C13, the callers on the untrusted path (proxy side): whatever the broker or the NAT probe
// server sends, pollOffer and checkNATType return; they never dereference the description that
// DeserializeSessionDescription returned together with an error.
//
// DeserializeSessionDescription is replaced by its own contract - "a description, or nil and an
// error" - which the job `deserialize` decides for the real function.

import (
	"errors"
	"io"
	"net/url"
	"time"

	"github.com/pion/webrtc/v3"

	"git.torproject.org/pluggable-transports/snowflake.git/v2/internal/verifapi"
)

var verifErr13 = errors.New("stub error")

func verifDeserialize13(msg string) (*webrtc.SessionDescription, error) {
	if verifapi.Bool("deserialize.fails") {
		verifapi.Cover("the description does not deserialise")
		return nil, verifErr13
	}
	return &webrtc.SessionDescription{Type: webrtc.SDPTypeAnswer, SDP: "sdp"}, nil
}
func verifSerialize13(d *webrtc.SessionDescription) (string, error) {
	verifapi.Assert(d != nil, "a description is serialised")
	if verifapi.Bool("serialize.fails") {
		return "", verifErr13
	}
	return "serialized", nil
}
func verifNewSignalingServer13(rawURL string, keepLocalAddresses bool) (*SignalingServer, error) {
	return &SignalingServer{url: &url.URL{}}, nil // the operator's probe URL parses (configuration, not remote input)
}
func verifMakeNewPC13(sf *SnowflakeProxy, config webrtc.Configuration, dataChan chan struct{}) (*webrtc.PeerConnection, error) {
	if verifapi.Bool("pc.fails") {
		return nil, verifErr13
	}
	return new(webrtc.PeerConnection), nil
}
func verifLocalDescription13(pc *webrtc.PeerConnection) *webrtc.SessionDescription {
	return &webrtc.SessionDescription{Type: webrtc.SDPTypeOffer, SDP: "local"}
}
func verifSetRemote13(pc *webrtc.PeerConnection, d webrtc.SessionDescription) error {
	if verifapi.Bool("setremote.fails") {
		return verifErr13
	}
	return nil
}
func verifPCClose13(pc *webrtc.PeerConnection) error { return nil }
func verifEncodePollResponse13(offer string, success bool, natType string) ([]byte, error) {
	if verifapi.Bool("encode.fails") {
		return nil, verifErr13
	}
	return []byte("probe"), nil
}
func verifPost13(s *SignalingServer, path string, payload io.Reader) ([]byte, error) {
	if verifapi.Bool("post.fails") {
		return nil, verifErr13
	}
	return []byte("resp"), nil
}

// what the remote side sent, after the (separately checked) message decoder
func verifDecodeAnswerRequest13(data []byte) (string, string, error) {
	if verifapi.Bool("decode.fails") {
		return "", "", verifErr13
	}
	return verifapi.String("remote.answer", 2), "sid", nil
}

var verifPolls13 int

func verifDecodePollResponse13(data []byte) (string, string, string, error) {
	verifPolls13++
	if verifPolls13 >= 3 || verifapi.Bool("decode.fails") { // at most two "no match" rounds
		return "", "", "", verifErr13
	}
	return verifapi.String("remote.offer", 2), "unknown", verifapi.String("remote.relay", 2), nil
}
func verifEncodePoll13(sid string, proxyType string, natType string, clients int, relayPattern string) ([]byte, error) {
	return []byte("poll"), nil
}
func verifAfter13(d time.Duration) <-chan time.Time {
	c := make(chan time.Time, 1)
	c <- time.Time{} // the probe's data channel never opens in this harness
	return c
}

func VerifC13_CheckNATType() {
	sf := &SnowflakeProxy{}
	tokens = newTokens(0)
	verifDataChan13 = nil
	sf.checkNATType(webrtc.Configuration{}, "probe")
	verifapi.Cover("checkNATType returned")
}

var verifDataChan13 chan struct{}

func VerifC13_PollOffer() {
	tokens = newTokens(0)
	s := &SignalingServer{url: &url.URL{}}
	shutdown := make(chan struct{})
	offer, _ := s.pollOffer("sid", "standalone", "", shutdown)
	verifapi.Cover("pollOffer returned")
	if offer != nil {
		verifapi.Cover("pollOffer returned an offer")
	}
}
