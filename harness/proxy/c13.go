package snowflake_proxy

// C13: extracting a peer address from any SDP text returns an address or nil and never panics.
// pion's parsers and Go's regexp are the environment.  Stub contract for every parser: it
// returns a value, or an error *together with an unusable value* (results returned with an
// error are unspecified in Go; a caller that touches them is wrong whatever the library does).

import (
	"errors"
	"net"
	"regexp"

	"github.com/pion/ice/v2"
	"github.com/pion/sdp/v3"

	"git.torproject.org/pluggable-transports/snowflake.git/v2/internal/verifapi"
)

var verifErr13 = errors.New("parse error (stub)")

type verifPoisonCand struct{ ice.Candidate }

func (verifPoisonCand) Address() string {
	verifapi.Assert(false, "a candidate returned together with an error is used")
	return ""
}
func (verifPoisonCand) Type() ice.CandidateType {
	verifapi.Assert(false, "a candidate returned together with an error is used")
	return ice.CandidateTypeHost
}

type verifGoodCand struct {
	ice.Candidate
	addr string
}

func (c verifGoodCand) Address() string         { return c.addr }
func (c verifGoodCand) Type() ice.CandidateType { return ice.CandidateTypeHost }

func verifSDPUnmarshal13(d *sdp.SessionDescription, value []byte) error {
	if verifapi.Bool("sdp.unmarshalFails") {
		return verifErr13
	}
	if verifapi.Bool("sdp.noMediaSections") { // a session description without any m= line parses fine
		verifapi.Cover("no media sections")
		return nil
	}
	n := verifapi.Concrete(verifapi.Choice("attrs", 3))
	md := &sdp.MediaDescription{}
	for k := 0; k < n; k++ {
		key := "other"
		if verifapi.Bool("attr.isCandidate") {
			key = "candidate"
		}
		md.Attributes = append(md.Attributes, sdp.Attribute{Key: key, Value: [2]string{"cand0", "cand1"}[k]})
	}
	d.MediaDescriptions = append(d.MediaDescriptions, md)
	return nil
}
func verifUnmarshalCandidate13(raw string) (ice.Candidate, error) {
	if verifapi.Bool("cand.parseFails") {
		return verifPoisonCand{}, verifErr13
	}
	return verifGoodCand{addr: raw}, nil
}

var verifIPs = [3]net.IP{nil, {10, 0, 0, 1}, {203, 0, 113, 5}}
var verifReturnedIPs [4]net.IP
var verifNParsed int

func verifParseIP13(s string) net.IP {
	ip := verifIPs[verifapi.Concrete(verifapi.Choice("parsed.ip", 3))] // not an IP / a local one / a remote one
	if verifNParsed < 4 {
		verifReturnedIPs[verifNParsed] = ip
		verifNParsed++
	}
	return ip
}

// (*regexp.Regexp).FindStringSubmatch: nil, or the whole match plus one string per group
func verifFindStringSubmatch(re *regexp.Regexp, s string) []string {
	if verifapi.Bool("regexp.noMatch") {
		return nil
	}
	m := make([]string, re.NumSubexp()+1)
	for i := range m {
		m[i] = "group"
	}
	return m
}
func verifNumSubexp(re *regexp.Regexp) int { return 2 }

func VerifC13_RemoteIP() {
	ip := remoteIPFromSDP(verifapi.String("sdp", 4))
	verifapi.Cover("address extraction returned")
	if ip != nil {
		verifapi.Cover("an address was extracted")
		verifapi.Assert(len(ip) == 4 && ip[0] == 203, "an extracted peer address is one that parsed and is a remote address")
	}
}
