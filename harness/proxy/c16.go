package snowflake_proxy

// C16 (session slots) and C06 (c) (relay URL admission) on the real proxy code:
// runSession, datachannelHandler, pollOffer's load computation, the tokens semaphore.
// The broker, pion, gorilla and net/url are the environment: redirect stubs with arbitrary
// outcomes (listed in checks/C16.json).

import (
	"errors"
	"io"
	"net"
	"net/http"
	"net/url"
	"time"

	"github.com/gorilla/websocket"
	"github.com/pion/webrtc/v3"

	"git.torproject.org/pluggable-transports/snowflake.git/v2/internal/verifapi"
)

var verifErr = errors.New("stub failure")

// ---- environment stubs -------------------------------------------------------------------

var (
	verifRelayURL     string // what the (possibly misbehaving) broker sends
	verifParsedURL    *url.URL
	verifParsedFrom   string
	verifParseFails   bool
	verifOpened       bool
	verifReachedPC    int
	verifHandlerURL   string
	verifPCClosed     int
	verifDialed       int
	verifDialedString *url.URL
)

func verifPollOffer(s *SignalingServer, sid string, proxyType string, pattern string, shutdown chan struct{}) (*webrtc.SessionDescription, string) {
	if verifapi.Bool("poll.noOffer") {
		return nil, ""
	}
	return &webrtc.SessionDescription{Type: webrtc.SDPTypeOffer, SDP: "sdp"}, verifRelayURL
}

// net/url.Parse as an uninterpreted function: an error, or a URL with arbitrary scheme and host
func verifURLParse(raw string) (*url.URL, error) {
	verifParsedFrom = raw
	if verifapi.Bool("url.parseFails") {
		verifParseFails = true
		return nil, verifErr
	}
	u := &url.URL{}
	switch verifapi.Concrete(verifapi.Choice("url.scheme", 4)) {
	case 0:
		u.Scheme = "wss"
	case 1:
		u.Scheme = "ws"
	case 2:
		u.Scheme = "https"
	case 3:
		u.Scheme = verifapi.String("url.scheme.s", 4)
	}
	u.Host = verifapi.String("url.host", verifapi.Param("hostlen", 5))
	verifParsedURL = u
	return u, nil
}
func verifHostname(u *url.URL) string { return u.Host }
func verifURLString(u *url.URL) string {
	verifDialedString = u
	return "rendered-url"
}
func verifURLQuery(u *url.URL) url.Values { return url.Values{} }

func verifMakePC(sf *SnowflakeProxy, sdp *webrtc.SessionDescription, config webrtc.Configuration, dataChan chan struct{},
	handler func(conn *webRTCConn, remoteAddr net.Addr)) (*webrtc.PeerConnection, error) {
	verifReachedPC++
	// C06 (c): sink - a peer connection is only ever prepared for an admissible relay URL
	if verifRelayURL != "" {
		verifapi.Cover("peer connection prepared for a broker-supplied relay URL")
		verifapi.Assert(!verifParseFails, "C06: no session for an unparseable relay URL")
		m := verifMatcherIsMember(sf.RelayDomainNamePattern, verifParsedURL.Host)
		verifapi.Assert(m, "C06: no relay connection to a broker-supplied URL whose hostname fails the proxy's own pattern")
		verifapi.Assert(sf.AllowNonTLSRelay || verifParsedURL.Scheme == "wss", "C06: no relay connection to a non-wss URL unless non-TLS relays are allowed")
	}
	if verifapi.Bool("pc.fails") {
		return nil, verifErr
	}
	// the handler installed must carry exactly the broker's relay URL
	verifHandlerProbe = true
	handler(nil, nil)
	verifHandlerProbe = false
	// (an empty URL means "use the operator's own relay"; defaulting early is equivalent)
	verifapi.Assert(verifHandlerURL == verifRelayURL || (verifRelayURL == "" && verifHandlerURL == sf.RelayURL),
		"C06: the data channel handler is given exactly the admitted relay URL")
	verifDataChan = dataChan
	verifPCMade++
	return new(webrtc.PeerConnection), nil
}

var verifPCMade int

var verifHandlerProbe bool
var verifDataChan chan struct{}

// redirect for (*SnowflakeProxy).datachannelHandler while probing which URL the adaptor carries
func verifDCHandlerProbe(sf *SnowflakeProxy, conn *webRTCConn, remoteAddr net.Addr, relayURL string) {
	verifHandlerURL = relayURL
}

func verifSendAnswer(s *SignalingServer, sid string, pc *webrtc.PeerConnection) error {
	if verifapi.Bool("answer.fails") {
		return verifErr
	}
	// only a client that received the answer can open the data channel
	if verifapi.Bool("client.opensDataChannel") {
		verifOpened = true
		close(verifDataChan)
	}
	return nil
}
func verifPCClose(pc *webrtc.PeerConnection) error {
	verifPCClosed++
	return nil
}

// time.After in runSession: the timeout fires iff the client never opens the data channel
// (the simultaneous case is a schedule the property's quantifier does not list)
func verifAfter(d time.Duration) <-chan time.Time {
	ch := make(chan time.Time, 1)
	if !verifOpened {
		ch <- time.Time{}
	}
	return ch
}

// reference membership, written from the documentation of the pattern syntax
func verifMatcherIsMember(pattern, host string) bool {
	exact := len(pattern) > 0 && pattern[0] == '^'
	if exact {
		pattern = pattern[1:]
	}
	if len(pattern) > 0 && pattern[len(pattern)-1] == '$' {
		pattern = pattern[:len(pattern)-1]
	}
	if exact {
		return host == pattern
	}
	return len(host) >= len(pattern) && host[len(host)-len(pattern):] == pattern
}

// VerifC16_RunSession: every exit path of runSession releases the slot exactly once, except
// the path where the client opened the data channel (the handler then owns the slot).
func VerifC16_RunSession() {
	n := uint(verifapi.Concrete(verifapi.Choice("capacity", 3))) // 0 (unlimited), 1, 2
	tokens = newTokens(n)
	broker = &SignalingServer{}
	sf := &SnowflakeProxy{RelayDomainNamePattern: verifapi.String("pattern", verifapi.Param("patlen", 4)),
		AllowNonTLSRelay: verifapi.Bool("allowNonTLS"), shutdown: make(chan struct{}),
		// the operator's own fallback relay: any value, also one equal to what the broker sends
		RelayURL: verifapi.String("own-relay", 3)}
	if verifapi.Bool("broker.sendsRelayURL") {
		verifRelayURL = "u" + verifapi.String("relayurl", 2)
	}
	tokens.get()
	verifapi.Assert(tokens.count() == 1, "a slot is taken")
	sf.runSession("sid")
	if verifOpened && verifReachedPC == 1 {
		verifapi.Cover("session: data channel opened")
		verifapi.Assert(tokens.count() == 1, "C16: with the data channel open the slot stays taken (the handler releases it)")
		verifapi.Assert(verifPCClosed == 0, "C16: an opened session is not torn down by runSession")
	} else {
		verifapi.Cover("session: ended without a data channel")
		verifapi.Assert(tokens.count() == 0, "C16: a session that ends without an open data channel releases its slot exactly once")
		// a peer connection left alive after its slot was released could still be joined by the
		// client (the answer may have reached it even though the broker reported a failure) and
		// would then be served without a slot
		verifapi.Assert(verifPCMade == 0 || verifPCClosed >= 1, "C16: a session that gives its slot back also closes its peer connection")
		if n != 0 {
			verifapi.Assert(len(tokens.ch) == 0, "C16: the capacity semaphore is released")
		}
	}
}

// ---- datachannelHandler ---------------------------------------------------------------------

func verifConnClose(c *webRTCConn) error { return nil }
func verifDial(d *websocket.Dialer, urlStr string, h http.Header) (*websocket.Conn, *http.Response, error) {
	verifDialed++
	verifapi.Assert(urlStr == "rendered-url", "C06: the URL dialled is the rendering of the parsed relay URL")
	if verifapi.Bool("dial.fails") {
		return nil, nil, verifErr
	}
	return new(websocket.Conn), nil, nil
}
func verifCopyLoop(c1 io.ReadWriteCloser, c2 io.ReadWriteCloser, shutdown chan struct{}) {}
func verifWSClose(c io.Closer) error                                                     { return nil }

func VerifC16_Handler() {
	tokens = newTokens(uint(2 * verifapi.Concrete(verifapi.Choice("capacity", 2)))) // unlimited or 2
	tokens.get()
	tokens.get()
	sf := &SnowflakeProxy{RelayURL: "operator-relay", shutdown: make(chan struct{})}
	given := ""
	if verifapi.Bool("broker.sendsRelayURL") {
		given = "broker-relay"
	}
	// the remote address is what the real webRTCConn.RemoteAddr computes for the session's SDP:
	// an address, or nothing when the description yields none
	conn := &webRTCConn{pc: new(webrtc.PeerConnection)}
	remote := conn.RemoteAddr()
	if remote != nil {
		verifapi.Cover("handler: client address known")
	}
	// (only the process exit of log.Fatalf is an expected outcome here; a Go panic is a violation)
	panicked := verifapi.ExpectExit(func() { sf.datachannelHandler(conn, remote, given) })
	if panicked {
		verifapi.Cover("handler: invalid operator URL")
		return // log.Fatalf on an unparseable relay URL (validated at Start; not a slot question)
	}
	verifapi.Cover("handler: returned")
	verifapi.Assert(tokens.count() == 1, "C16: the data channel handler releases the slot exactly once on every path")
	if given == "" {
		verifapi.Assert(verifParsedFrom == "operator-relay", "C06: without a broker-supplied URL the operator's relay URL is used")
	} else {
		verifapi.Assert(verifParsedFrom == "broker-relay", "C06: the broker-supplied relay URL is the one parsed and dialled")
	}
	verifapi.Assert(verifDialed == 1, "the relay is dialled once")
	verifapi.Assert(verifDialedString == verifParsedURL, "C06: the dialled URL is the parsed relay URL (only its query is changed)")
}

// ---- semaphore ---------------------------------------------------------------------------------

func VerifC16_Tokens() {
	n := verifapi.Concrete(verifapi.Choice("capacity", verifapi.Param("maxcap", 4)+1))
	t := newTokens(uint(n))
	held := 0
	ops := verifapi.Param("ops", 6)
	for step := 0; step < ops; step++ {
		if verifapi.Bool("get") {
			if n != 0 && held == n {
				verifapi.Cover("tokens: at capacity")
				verifapi.Assert(len(t.ch) == cap(t.ch), "C16: at capacity the next get blocks (no more than N slots)")
				continue
			}
			t.get()
			held++
		} else if held > 0 {
			t.ret()
			held--
		}
		verifapi.Assert(t.count() == int64(held), "C16: the count equals the slots in use")
		if n != 0 {
			verifapi.Assert(len(t.ch) == held, "C16: the semaphore holds one token per slot in use")
			verifapi.Assert(held <= n, "C16: never more than N slots")
		}
	}
	verifapi.Cover("tokens: history")
}

// ---- reported load -----------------------------------------------------------------------------

var verifPolls int

func verifEncodePoll(sid string, proxyType string, natType string, clients int, relayPattern string) ([]byte, error) {
	verifPolls++
	inUse := int(tokens.count())
	verifapi.Cover("load reported")
	verifapi.Assert(clients%8 == 0, "C16: the reported load is a multiple of 8")
	verifapi.Assert(clients <= inUse, "C16: the reported load does not exceed the slots in use")
	verifapi.Assert(clients >= 0, "C16: the reported load is not negative")
	return []byte("poll"), nil
}
func verifPost(s *SignalingServer, path string, payload io.Reader) ([]byte, error) {
	// while the poll is outstanding clients may come and go
	c := int64(verifapi.Int("clients.later"))
	verifapi.Assume(c >= 0)
	verifapi.Assume(c < 1<<40)
	tokens.clients = c
	return []byte("resp"), nil
}
func verifDecodePollResponse(data []byte) (string, string, string, error) {
	if verifPolls >= 2 {
		return "", "", "", verifErr // end the polling loop
	}
	return "", "unknown", "", nil // no match: poll again
}

func VerifC16_Load() {
	tokens = newTokens(0)
	c := int64(verifapi.Int("clients"))
	verifapi.Assume(c >= 0)
	verifapi.Assume(c < 1<<40)
	tokens.clients = c
	s := &SignalingServer{url: &url.URL{}}
	s.pollOffer("sid", "standalone", "", make(chan struct{}))
	verifapi.Assert(verifPolls == 2, "two polls were made")
}

// VerifC16_TokensConcurrent: sessions that end at the same moment each release one slot.
func VerifC16_TokensConcurrent() {
	n := verifapi.Concrete(verifapi.Choice("capacity", 2)) * 2 // unlimited or 2
	t := newTokens(uint(n))
	t.get()
	t.get()
	done := make(chan bool, 2)
	for g := 0; g < 2; g++ {
		go func() {
			t.ret()
			done <- true
		}()
	}
	<-done
	<-done
	verifapi.Cover("concurrent release")
	verifapi.Assert(t.count() == 0, "C16: after all sessions ended - also when they end at the same moment - no slot is counted as in use")
	if n != 0 {
		verifapi.Assert(len(t.ch) == 0, "C16: the semaphore is empty again")
	}
	t.get()
	verifapi.Assert(t.count() == 1, "C16: the proxy polls again with full capacity")
}

// VerifC06_TwoProxies: the admission decision belongs to the proxy that makes it - two proxies
// in one process (the library is used that way in tests and embedders) with different patterns
// each apply their own, in whatever order they run their sessions.
func VerifC06_TwoProxies() {
	tokens = newTokens(0)
	broker = &SignalingServer{}
	pats := [2]string{"a$", "^b$"}
	first := verifapi.Concrete(verifapi.Choice("first proxy", 2))
	for k := 0; k < 2; k++ {
		sf := &SnowflakeProxy{RelayDomainNamePattern: pats[(first+k)%2], AllowNonTLSRelay: true, shutdown: make(chan struct{})}
		verifRelayURL = "u" + verifapi.String("relayurl", 1)
		verifOpened, verifParseFails = false, false
		tokens.get()
		sf.runSession("sid") // verifMakePC asserts membership against sf's own pattern
	}
	verifapi.Cover("two proxies ran a session each")
}

func verifRemoteDescription16(pc *webrtc.PeerConnection) *webrtc.SessionDescription {
	return &webrtc.SessionDescription{Type: webrtc.SDPTypeOffer, SDP: "sdp"}
}
func verifRemoteIPFromSDP16(sdp string) net.IP {
	if verifapi.Bool("sdp has a usable address") {
		return net.IP{198, 51, 100, 7}
	}
	return nil
}
