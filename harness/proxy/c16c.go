package snowflake_proxy

// C16: the proxy's main loop. Start() takes a slot before every session it starts, with the
// capacity the operator configured, so at no time are more than Capacity sessions in flight -
// whatever mix of sessions that end at once and sessions whose client connects and holds the
// slot for a while.

import (
	"net/url"

	"github.com/pion/webrtc/v3"

	"git.torproject.org/pluggable-transports/snowflake.git/v2/internal/verifapi"
)

var (
	verifInFlight  int
	verifStarted   int
	verifCapacity  uint
	verifProxy     *SnowflakeProxy
	verifMaxSeen   int
	verifSessionsN int
)

func verifNewSignalingServer16(rawURL string, keepLocalAddresses bool) (*SignalingServer, error) {
	return &SignalingServer{url: &url.URL{}, keepLocalAddresses: keepLocalAddresses}, nil
}
func verifCheckNATType16(sf *SnowflakeProxy, config webrtc.Configuration, probeURL string) {}

// redirect stub for runSession: the session either ends at once (slot returned before
// runSession returns, as on every failure path) or its client connects and the data channel
// handler returns the slot later, from its own goroutine
func verifRunSession16(sf *SnowflakeProxy, sid string) {
	verifStarted++
	verifInFlight++
	if verifInFlight > verifMaxSeen {
		verifMaxSeen = verifInFlight
	}
	if verifCapacity != 0 {
		verifapi.Assert(uint(verifInFlight) <= verifCapacity, "C16: never more sessions in flight than the configured capacity")
	}
	verifapi.Assert(tokens.count() >= int64(verifInFlight), "C16: every session in flight holds a slot")
	if verifapi.Bool("client connects") {
		go func() {
			verifapi.Yield()
			verifInFlight--
			tokens.ret()
		}()
	} else {
		verifInFlight--
		tokens.ret()
	}
	if verifStarted >= verifSessionsN {
		sf.Stop()
	}
}

func VerifC16_StartLoop() {
	verifCapacity = uint(verifapi.Concrete(verifapi.Choice("capacity", 3))) // 0 = unlimited, 1, 2
	verifSessionsN = int(verifapi.Param("sessions", 3))
	verifProxy = &SnowflakeProxy{Capacity: verifCapacity, RelayDomainNamePattern: "example.com$"}
	err := verifProxy.Start()
	verifapi.Quiesce()
	if err != nil { // the operator's URLs do not parse (net/url is uninterpreted here): nothing is started
		verifapi.Assert(verifStarted == 0, "no session is started with an invalid configuration")
		return
	}
	verifapi.Cover("proxy loop ended")
	verifapi.Assert(verifStarted == verifSessionsN, "the loop stops starting sessions once the proxy is stopped")
	verifapi.Assert(tokens.count() == 0 && verifInFlight == 0, "C16: every slot has been returned when all sessions are over")
	if verifCapacity == 2 && verifMaxSeen == 2 {
		verifapi.Cover("two sessions in flight")
	}
}

// the operator's own URLs parse (configuration, decided at start-up)
func verifURLParseOK16(raw string) (*url.URL, error) { return &url.URL{}, nil }
