package snowflake_server

// C18: the bounded ClientID -> address memory and the client_ip sanitiser.

import (
	"net"

	"git.torproject.org/pluggable-transports/snowflake.git/v2/common/turbotunnel"
	"git.torproject.org/pluggable-transports/snowflake.git/v2/internal/verifapi"
)

func verifMkID(name string) turbotunnel.ClientID {
	var id turbotunnel.ClientID
	// two symbolic bytes (first and last) are enough to alias / not alias; the rest is zero
	id[0] = verifapi.Uint8(name)
	id[7] = verifapi.Uint8(name + ".hi")
	return id
}

type verifRefEntry struct {
	id   turbotunnel.ClientID
	addr ClientMapAddr
}

// VerifC18_Ring: every history of Set/Get on the bounded map, against the reference
// "the last `capacity` Sets": Get(id) returns the address of the most recent Set(id) iff that
// Set is among the last `capacity` Sets; at most `capacity` ids are remembered; capacity 0
// never panics and never stores.
func VerifC18_Ring() {
	capacity := verifapi.Concrete(verifapi.Choice("capacity", verifapi.Param("maxcap", 3)+1))
	m := newClientIDMap(capacity)
	ops := verifapi.Param("ops", 5)
	var hist [12]verifRefEntry
	nset := 0
	addrs := [3]ClientMapAddr{"a", "b", "c"}
	for step := 0; step < ops; step++ {
		if verifapi.Bool("isSet") {
			id := verifMkID("id")
			addr := addrs[verifapi.Concrete(verifapi.Choice("addr", 3))]
			m.Set(id, addr)
			hist[nset] = verifRefEntry{id, addr}
			nset++
		} else {
			id := verifMkID("q")
			got, ok := m.Get(id)
			want, wantOK := ClientMapAddr(""), false
			for i := nset - 1; i >= 0 && i >= nset-capacity; i-- {
				if hist[i].id == id {
					want, wantOK = hist[i].addr, true
					break
				}
			}
			verifapi.Assert(ok == wantOK, "Get finds an id iff its latest Set is among the last `capacity` Sets")
			if ok {
				verifapi.Cover("ring: hit")
				verifapi.Assert(got.(ClientMapAddr) == want, "Get returns the address of the most recent Set of that id")
			} else {
				verifapi.Cover("ring: miss")
				verifapi.Assert(got == nil, "a miss returns a nil address")
			}
		}
		verifapi.Assert(len(m.current) <= capacity, "at most `capacity` ClientIDs are remembered")
	}
}

// ---- sanitiser: net.ParseIP is an uninterpreted function of its argument (nil or a 16-byte
// IP chosen by the solver), (*net.TCPAddr).String an uninterpreted function of its fields.

var verifParsed net.IP
var verifTCPString string
var verifTCPStringCalls int

func verifParseIP(s string) net.IP {
	if verifapi.Bool("parse.fails") {
		verifParsed = nil
		return nil
	}
	ip := net.IP(verifapi.Bytes("parsed.ip", 16))
	verifapi.Assume(len(ip) == 16)
	verifParsed = ip
	return ip
}

func verifTCPAddrString(a *net.TCPAddr) string {
	verifTCPStringCalls++
	verifapi.Assert(a.Port == 1, "the stub port is 1")
	verifapi.Assert(a.Zone == "", "no zone is passed on")
	verifapi.Assert(len(a.IP) == 16, "the parsed address is passed on")
	j := verifapi.Int("ipj")
	if 0 <= j && j < 16 {
		verifapi.Assert(a.IP[j] == verifParsed[j], "the address rendered is the parsed client_ip")
	}
	verifTCPString = "rendered"
	return verifTCPString
}

func VerifC18_ClientAddr() {
	s := verifapi.String("client_ip", 4)
	if verifapi.Native() && s != "" {
		// realiser: the text that makes the real net.ParseIP return what the stub returned
		if ip := verifParseIP(s); ip == nil {
			s = "not-an-ip"
		} else {
			s = ip.String()
		}
	}
	a := clientAddr(s)
	ca, isCMA := a.(ClientMapAddr)
	verifapi.Assert(isCMA, "the address is a ClientMapAddr")
	verifapi.Assert(a.Network() == "snowflake", "network name")
	unspec := false
	if verifParsed != nil {
		z := true
		for i := 0; i < 16; i++ {
			z = verifapi.And(z, verifParsed[i] == 0)
		}
		m := true
		for i := 0; i < 10; i++ {
			m = verifapi.And(m, verifParsed[i] == 0)
		}
		m = verifapi.And(m, verifapi.And(verifParsed[10] == 0xff, verifParsed[11] == 0xff))
		for i := 12; i < 16; i++ {
			m = verifapi.And(m, verifParsed[i] == 0)
		}
		unspec = verifapi.Or(z, m) // :: or (mapped) 0.0.0.0
	}
	if s == "" || verifParsed == nil || unspec {
		verifapi.Cover("clientAddr: empty")
		verifapi.Assert(string(ca) == "", "absent, unparseable or unspecified client_ip gives the empty address")
		verifapi.Assert(verifapi.Native() || verifTCPStringCalls == 0, "nothing is rendered for a rejected client_ip")
	} else {
		verifapi.Cover("clientAddr: rendered")
		if verifapi.Native() {
			verifapi.Assert(string(ca) == (&net.TCPAddr{IP: verifParsed, Port: 1}).String(), "the result is the rendered address")
		} else {
			verifapi.Assert(verifTCPStringCalls == 1, "a valid client_ip is rendered once")
			verifapi.Assert(string(ca) == verifTCPString, "the result is the rendered address")
		}
	}
}

// VerifC18_ClientAddrReal: the sanitiser against its definition, with the real net.ParseIP and
// the real address formatting executed symbolically on short strings: the result is the
// parsed, specified address rendered with port 1 and no zone - or empty.
func VerifC18_ClientAddrReal() {
	s := verifapi.String("client_ip", verifapi.Param("iplen", 4))
	_ = verifapi.Concrete(len(s))
	got := clientAddr(s)
	want := ""
	if ip := net.ParseIP(s); ip != nil && !ip.IsUnspecified() {
		verifapi.Cover("real parser: a valid specified address")
		want = (&net.TCPAddr{IP: ip, Port: 1}).String()
	} else {
		verifapi.Cover("real parser: rejected")
	}
	verifapi.Assert(got.String() == want, "the address told to the bridge is the sanitised client_ip: a valid, specified IP with a stub port, or empty")
	verifapi.Assert(got.Network() == "snowflake", "network name")
}

// VerifC18_MapConcurrent: a lookup that runs while the ring wraps onto the looked-up slot
// returns the session's own address or nothing - never another session's address.
func VerifC18_MapConcurrent() {
	m := newClientIDMap(1)
	id1, id2 := verifSessionID(0), verifSessionID(1)
	m.Set(id1, ClientMapAddr("198.51.100.1:1"))
	var got net.Addr
	var ok bool
	done := make(chan bool, 2)
	go func() {
		got, ok = m.Get(id1)
		done <- true
	}()
	go func() {
		m.Set(id2, ClientMapAddr("198.51.100.2:1")) // evicts id1: the ring has one slot
		done <- true
	}()
	<-done
	<-done
	verifapi.Cover("lookup raced with eviction")
	if ok {
		verifapi.Assert(got == net.Addr(ClientMapAddr("198.51.100.1:1")), "C18: a lookup never returns another session's address")
	} else {
		verifapi.Assert(got == nil, "C18: a forgotten session has no address")
	}
}
