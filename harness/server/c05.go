package snowflake_server

// C05 (and C18 c): the server binds packets to sessions by ClientID.
// The real turbotunnelMode, QueuePacketConn, ClientMap and encapsulation code run under the
// engine's scheduler with two concurrent carriers (harness net.Conn fakes).  The KCP/smux
// session layer (one accepted connection per session, the one-minute gap) is outside.

import (
	"errors"
	"io"
	"net"
	"time"

	"net/http"
	"net/url"

	"github.com/gorilla/websocket"
	"github.com/xtaci/kcp-go/v5"
	"github.com/xtaci/smux"

	"git.torproject.org/pluggable-transports/snowflake.git/v2/common/turbotunnel"
	"git.torproject.org/pluggable-transports/snowflake.git/v2/common/websocketconn"
	"git.torproject.org/pluggable-transports/snowflake.git/v2/internal/verifapi"
)

// the client map's sweeper goroutine sleeps for ever in this model (expiry is C17's subject)
func verifSleepForever(d time.Duration) {
	verifapi.Daemon()
	<-make(chan struct{})
}

type verifCarrierConn struct {
	in        []byte // what the proxy sends: ClientID ++ encapsulated packets
	pos       int
	endRead   chan struct{}
	out       []byte // what the server writes to this carrier
	closed    bool
	firstRead int // size of the carrier's first message (0 = everything at once)
}

func (c *verifCarrierConn) Read(p []byte) (int, error) {
	if c.pos >= len(c.in) {
		<-c.endRead // the carrier stays up until the harness cuts it
		return 0, io.EOF
	}
	avail := c.in[c.pos:]
	if c.pos == 0 && c.firstRead > 0 && c.firstRead < len(avail) {
		avail = avail[:c.firstRead] // a carrier message boundary inside the ClientID prefix
	}
	n := copy(p, avail)
	c.pos += n
	return n, nil
}
func (c *verifCarrierConn) Write(p []byte) (int, error) {
	if c.closed {
		return 0, errors.New("write on a closed carrier")
	}
	c.out = append(c.out, p...)
	return len(p), nil
}
func (c *verifCarrierConn) Close() error                       { c.closed = true; return nil }
func (c *verifCarrierConn) LocalAddr() net.Addr                { return nil }
func (c *verifCarrierConn) RemoteAddr() net.Addr               { return nil }
func (c *verifCarrierConn) SetDeadline(t time.Time) error      { return nil }
func (c *verifCarrierConn) SetReadDeadline(t time.Time) error  { return nil }
func (c *verifCarrierConn) SetWriteDeadline(t time.Time) error { return nil }

func verifSessionID(i int) turbotunnel.ClientID {
	var id turbotunnel.ClientID
	id[0] = byte(0x10 + i)
	id[7] = byte(0x01 + i)
	return id
}

// carrier i sends: its ClientID, then npk data chunks [tag_i, seq, payload]
func verifCarrierStream(i, npk int, payload [2]byte) []byte {
	id := verifSessionID(i)
	s := append([]byte{}, id[:]...)
	for k := 0; k < npk; k++ {
		s = append(s, 0x80|3, byte(0xA0+i), byte(k), payload[k])
	}
	return s
}

func VerifC05_Sessions() {
	pconn := turbotunnel.NewQueuePacketConn(ClientMapAddr("local"), time.Minute)
	npk := verifapi.Param("packets", 1)
	var carriers [2]*verifCarrierConn
	var payloads [2][2]byte
	done := [2]bool{}
	for i := 0; i < 2; i++ {
		payloads[i] = [2]byte{verifapi.Uint8("payload"), verifapi.Uint8("payload")}
		carriers[i] = &verifCarrierConn{in: verifCarrierStream(i, npk, payloads[i]), endRead: make(chan struct{})}
		if i == 0 {
			carriers[i].firstRead = [2]int{0, 4}[verifapi.Concrete(verifapi.Choice("carrier.firstMessage", 2))]
		}
	}
	addrs := [2]ClientMapAddr{"198.51.100.1:1", "198.51.100.2:1"}
	for i := 0; i < 2; i++ {
		i := i
		go func() {
			turbotunnelMode(carriers[i], addrs[i], pconn)
			done[i] = true
		}()
	}
	// the KCP side: read every upstream packet
	var next [2]int
	for k := 0; k < 2*npk; k++ {
		var buf [8]byte
		n, addr, err := pconn.ReadFrom(buf[:])
		verifapi.Assert(err == nil && n == 3, "an upstream packet is delivered whole")
		id, ok := addr.(turbotunnel.ClientID)
		verifapi.Assert(ok, "upstream packets are tagged with a ClientID")
		who := int(buf[0]) - 0xA0
		verifapi.Assert(who == 0 || who == 1, "the packet came from one of the carriers")
		verifapi.Assert(id == verifSessionID(who), "an upstream packet is attributed to the session named by its carrier's ClientID prefix")
		verifapi.Assert(int(buf[1]) == next[who], "a carrier's packets are delivered in order")
		verifapi.Assert(buf[2] == payloads[who][next[who]], "the packet's bytes are the carrier's bytes")
		next[who]++
	}
	verifapi.Cover("upstream packets attributed")
	// C18 (c): each carrier registered its own address under its own ClientID before its
	// packets were queued
	for i := 0; i < 2; i++ {
		a, ok := clientIDAddrMap.Get(verifSessionID(i))
		verifapi.Assert(ok && a == net.Addr(addrs[i]), "C18: a session's address is the client_ip of the carrier that presented its ClientID - never another session's")
	}
	// downstream: one packet per session
	out := []byte{0, 0x55} // the KCP layer recycles its transmit buffer across sessions
	for i := 0; i < 2; i++ {
		out[0] = byte(0xD0 + i)
		n, err := pconn.WriteTo(out, verifSessionID(i))
		verifapi.Assert(err == nil && n == 2, "a downstream packet is accepted")
	}
	out[0] = 0xEE
	verifapi.Quiesce()
	for i := 0; i < 2; i++ {
		o := carriers[i].out
		verifapi.Assert(len(o) == 3, "each carrier receives exactly its session's downstream packet")
		if len(o) == 3 {
			verifapi.Assert(o[0] == 0x80|2 && o[1] == byte(0xD0+i) && o[2] == 0x55, "downstream packets of a session are written only to carriers that presented the same ClientID")
		}
	}
	verifapi.Cover("downstream packets routed")
	for i := 0; i < 2; i++ {
		close(carriers[i].endRead) // the proxies disconnect
	}
	verifapi.Quiesce()
	verifapi.Assert(done[0] && done[1], "a carrier's handler returns when the carrier is cut")
	verifapi.Assert(carriers[0].closed && carriers[1].closed, "a cut carrier is closed")
}

// ---- token gate --------------------------------------------------------------------------------

var (
	verifTTCalls int
	verifTTAddr  net.Addr
)

func verifTurbotunnelMode(conn net.Conn, addr net.Addr, pconn *turbotunnel.QueuePacketConn) error {
	verifTTCalls++
	verifTTAddr = addr
	return nil
}

// VerifC05_TokenGate: the code after the WebSocket upgrade, on a harness conn: a carrier whose
// first 8 bytes are not the turbotunnel token is closed without reaching the session layer.
var verifGateConn *verifCarrierConn

func verifUpgrade(u *websocket.Upgrader, w http.ResponseWriter, r *http.Request, h http.Header) (*websocket.Conn, error) {
	if verifapi.Bool("upgrade.fails") {
		return nil, errors.New("not a websocket handshake (stub)")
	}
	verifUpgraded = true
	return new(websocket.Conn), nil
}

var verifUpgraded bool

func verifWSNew(ws *websocket.Conn) *websocketconn.Conn        { return new(websocketconn.Conn) }
func verifWSRead(c *websocketconn.Conn, p []byte) (int, error) { return verifGateConn.Read(p) }
func verifWSClose(c *websocketconn.Conn) error                 { return verifGateConn.Close() }

// the query parameter as net/url hands it over (already percent-decoded once); it contains a
// '%' so that any further decoding on the way to the sanitiser would change it
const verifClientIPParam = "198.51.100.9%31"

func verifParseIPGate(s string) net.IP {
	verifapi.Assert(s == verifClientIPParam, "C18: the sanitiser is given exactly the client_ip query parameter")
	return net.IP{198, 51, 100, 9}
}
func verifQueryGet(v url.Values, key string) string {
	if key != "client_ip" {
		return ""
	}
	return verifClientIPParam
}
func verifTCPStringGate(a *net.TCPAddr) string { return "198.51.100.9:1" }

func VerifC05_TokenGate() {
	tok := verifapi.Bytes("first8", 8)
	n := verifapi.Concrete(len(tok))
	c := &verifCarrierConn{in: tok[:n], endRead: make(chan struct{})}
	close(c.endRead)
	verifGateConn = c
	h := &httpHandler{}
	h.ServeHTTP(nil, &http.Request{URL: &url.URL{}})
	if verifUpgraded {
		verifapi.Assert(c.closed, "the carrier is closed when its handler returns")
	}
	isToken := n == 8
	for i := 0; i < 8 && isToken; i++ {
		if tok[i] != turbotunnel.Token[i] {
			isToken = false
		}
	}
	if !verifUpgraded {
		verifapi.Assert(verifTTCalls == 0, "a request that is not a WebSocket upgrade never produces a connection")
		return
	}
	if isToken {
		verifapi.Cover("token accepted")
		verifapi.Assert(verifTTCalls == 1, "a carrier presenting the token reaches turbotunnel mode")
		verifapi.Assert(verifTTAddr == net.Addr(ClientMapAddr("198.51.100.9:1")), "the carrier's own sanitised address is passed on")
	} else {
		verifapi.Cover("token rejected")
		verifapi.Assert(verifTTCalls == 0, "a carrier without the turbotunnel token never produces a connection")
	}
}

// ---- C18 (c): the address of an accepted connection is looked up once, at session set-up ---------

var (
	verifQueued     [4]*SnowflakeClientConn
	verifNQueued    int
	verifSessionCID turbotunnel.ClientID
	verifStreams    int
)

func verifKCPRemoteAddr(s *kcp.UDPSession) net.Addr { return verifSessionCID }
func verifSmuxServer(conn io.ReadWriteCloser, cfg *smux.Config) (*smux.Session, error) {
	// C05: a session may lose its carrier for up to the retention time of the client map and
	// must then continue; the session layer therefore must not give up on a silent peer earlier
	verifapi.Assert(cfg != nil && cfg.KeepAliveTimeout >= clientMapTimeout, "C05: the session layer tolerates silence for at least the carrier retention time (one minute)")
	if verifapi.Bool("smux.fails") {
		return nil, errors.New("smux (stub)")
	}
	return new(smux.Session), nil
}
func verifAcceptStream(s *smux.Session) (*smux.Stream, error) {
	if verifStreams >= 2 {
		return nil, errors.New("session closed (stub)")
	}
	verifStreams++
	if verifStreams == 1 {
		// between the first and the second stream another carrier of the same session
		// reports a different client_ip (or the entry is evicted)
		clientIDAddrMap.Set(verifSessionCID, ClientMapAddr("203.0.113.77:1"))
	}
	return new(smux.Stream), nil
}
func verifQueueConn(l *SnowflakeListener, c net.Conn) error {
	verifQueued[verifNQueued] = c.(*SnowflakeClientConn)
	verifNQueued++
	return nil
}

func VerifC18_AcceptStreams() {
	verifSessionCID = verifSessionID(0)
	// what the map holds for this session when its first KCP packet arrives: the address of its
	// carrier, "no address" (no client_ip), or nothing at all (more than capacity other sessions
	// were recorded in between and the entry has been evicted)
	want := ""
	switch verifapi.Concrete(verifapi.Choice("map.entry", 3)) {
	case 0:
		want = "198.51.100.1:1"
		clientIDAddrMap.Set(verifSessionCID, ClientMapAddr(want))
	case 1:
		clientIDAddrMap.Set(verifSessionCID, ClientMapAddr(""))
	case 2:
		verifapi.Cover("map entry evicted")
	}
	l := &SnowflakeListener{}
	l.acceptStreams(new(kcp.UDPSession))
	for i := 0; i < verifNQueued; i++ {
		verifapi.Cover("stream accepted")
		// exactly what the server binary does with an accepted connection (server.go handleConn)
		// before it tells the bridge: conn.RemoteAddr().String()
		told := verifQueued[i].RemoteAddr().String()
		verifapi.Assert(told == want, "C18: every connection of a session carries the address known when the session was established, or none")
	}
}

// ---- C18: every carrier of a session updates the session's address, "none" included -----------
//
// "the address of the most recent carrier that had to do with the session is the one credited":
// a later carrier without client_ip must replace an earlier carrier's address, not keep it.

func VerifC18_CarrierUpdatesMap() {
	cid := verifSessionID(0)
	pconn := turbotunnel.NewQueuePacketConn(ClientMapAddr(""), clientMapTimeout)
	addrs := [3]string{"", "198.51.100.1:1", "203.0.113.2:1"}
	for k := 0; k < 2; k++ {
		a := ClientMapAddr(addrs[verifapi.Concrete(verifapi.Choice("carrier address", 3))])
		end := make(chan struct{})
		close(end) // the carrier presents its ClientID and is cut
		conn := &verifCarrierConn{in: cid[:], endRead: end}
		err := turbotunnelMode(conn, a, pconn)
		verifapi.Assert(err == nil, "a carrier that presents a ClientID is served")
		got, ok := clientIDAddrMap.Get(cid)
		verifapi.Assert(ok && got == net.Addr(a), "C18: the session is credited with the address of its most recent carrier - or with none if that carrier had none")
	}
	verifapi.Cover("two carriers of one session")
}

// ---- C05 / C18 / C20: every KCP session is served by its own goroutine --------------------------

var (
	verifKCPSessions [2]*kcp.UDPSession
	verifKCPNext     int
	verifServed      [2]int
	verifSessClosed  [2]int
)

func verifAcceptKCP(ln *kcp.Listener) (*kcp.UDPSession, error) {
	verifapi.Yield() // goroutines of earlier sessions may run before, between or after accepts
	if verifKCPNext >= len(verifKCPSessions) {
		return nil, errors.New("listener closed (stub)")
	}
	s := verifKCPSessions[verifKCPNext]
	verifKCPNext++
	return s, nil
}
func verifSessIndex(s *kcp.UDPSession) int {
	for i, x := range verifKCPSessions {
		if x == s {
			return i
		}
	}
	verifapi.Assert(false, "an unknown session object")
	return 0
}
func verifAcceptStreamsRec(l *SnowflakeListener, conn *kcp.UDPSession) error {
	verifServed[verifSessIndex(conn)]++
	return nil
}
func verifKCPClose(s *kcp.UDPSession) error { verifSessClosed[verifSessIndex(s)]++; return nil }

func VerifC05_AcceptSessions() {
	verifKCPSessions = [2]*kcp.UDPSession{new(kcp.UDPSession), new(kcp.UDPSession)}
	l := &SnowflakeListener{}
	l.acceptSessions(new(kcp.Listener))
	verifapi.Quiesce()
	verifapi.Cover("accept loop ended")
	for i := range verifKCPSessions {
		verifapi.Assert(verifServed[i] == 1, "C05: every KCP session is served exactly once, by its own goroutine (no goroutine picks up another session)")
		verifapi.Assert(verifSessClosed[i] >= 1, "a session is closed when its streams are over")
	}
}

// ---- C05: one carrier, several packets per message, a failing downstream write -------------------
//
// A carrier may deliver its ClientID and several packets in one message: all of them reach the
// session, in order. When writing to the carrier fails, turbotunnel mode ends and the carrier is
// closed (no handler stays behind for a dead carrier).

type verifFailingCarrier struct {
	verifCarrierConn
	failWrites bool
	writeCalls int
	closedCh   chan struct{}
}

// like a real net.Conn, Close unblocks a pending Read
func (c *verifFailingCarrier) Read(p []byte) (int, error) {
	if c.pos >= len(c.in) {
		select {
		case <-c.endRead:
			return 0, io.EOF
		case <-c.closedCh:
			return 0, errors.New("read on a closed carrier")
		}
	}
	return c.verifCarrierConn.Read(p)
}
func (c *verifFailingCarrier) Close() error {
	if !c.closed {
		close(c.closedCh)
	}
	return c.verifCarrierConn.Close()
}

func (c *verifFailingCarrier) Write(p []byte) (int, error) {
	c.writeCalls++
	if c.failWrites {
		return 0, errors.New("carrier write failed (stub)")
	}
	return c.verifCarrierConn.Write(p)
}

func VerifC05_CarrierIO() {
	cid := verifSessionID(0)
	pconn := turbotunnel.NewQueuePacketConn(ClientMapAddr(""), clientMapTimeout)
	end := make(chan struct{})
	conn := &verifFailingCarrier{failWrites: verifapi.Bool("downstream write fails"), closedCh: make(chan struct{})}
	conn.in = append(append(append([]byte{}, cid[:]...), 0x82, 'a', 'b'), 0x81, 'c') // ClientID, "ab", "c" in one message
	conn.endRead = end
	returned := false
	go func() {
		turbotunnelMode(conn, ClientMapAddr(""), pconn)
		returned = true
	}()
	verifapi.Quiesce()
	var buf [8]byte
	n, addr, err := pconn.ReadFrom(buf[:])
	verifapi.Assert(err == nil && n == 2 && buf[0] == 'a' && buf[1] == 'b' && addr == net.Addr(cid), "C05: the first packet of a carrier message reaches the session under the carrier's ClientID")
	n, addr, err = pconn.ReadFrom(buf[:])
	verifapi.Assert(err == nil && n == 1 && buf[0] == 'c' && addr == net.Addr(cid), "C05: packets that arrive in the same carrier message as an earlier packet are not lost")
	pconn.WriteTo([]byte{'d'}, cid) // a downstream packet for this session
	verifapi.Quiesce()
	if conn.failWrites {
		verifapi.Cover("downstream write failed")
		verifapi.Assert(returned && conn.closed, "when writing to the carrier fails, turbotunnel mode ends and the carrier is closed")
	} else {
		verifapi.Cover("downstream packet written")
		verifapi.Assert(len(conn.out) == 2 && conn.out[0] == 0x81 && conn.out[1] == 'd', "the downstream packet is written to the carrier, encapsulated")
		close(end) // the carrier is cut
		verifapi.Quiesce()
		verifapi.Assert(returned && conn.closed, "when the carrier is cut, turbotunnel mode ends and the carrier is closed")
	}
}
