package main

// C06 (b): the broker explicitly rejects every proxy poll whose accepted-relay pattern (for
// legacy proxies the presumed pattern) is not a superset of the allowed pattern, and never
// registers such a proxy.

import (
	"strings"

	"git.torproject.org/pluggable-transports/snowflake.git/v2/common/messages"
	"git.torproject.org/pluggable-transports/snowflake.git/v2/internal/verifapi"
)

var (
	verifPollPattern   string
	verifPollSupported bool
	verifRegistered    int
	verifPollStatus    string
	verifPollSuccess   bool
)

func verifDecodeProxyPoll06(data []byte) (string, string, string, int, string, bool, error) {
	return "sid", "standalone", "unrestricted", 0, verifPollPattern, verifPollSupported, nil
}
func verifRequestOffer06(ctx *BrokerContext, id string, proxyType string, natType string, clients int) *ClientOffer {
	verifRegistered++
	return nil // nobody asks: the poll goes idle
}
func verifEncodePollResponseRelay06(offer string, success bool, natType, relayURL, failReason string) ([]byte, error) {
	verifPollSuccess, verifPollStatus = success, failReason
	return []byte("resp"), nil
}
func verifEncodePollResponse06(offer string, success bool, natType string) ([]byte, error) {
	return verifEncodePollResponseRelay06(offer, success, natType, "", "no match")
}

// reference semantics of the pattern language, from its documentation: "^" prefix = exact
// match, optional trailing "$", otherwise suffix match
func verifRefParse(p string) (exact bool, body string) {
	if len(p) > 0 && p[0] == '^' {
		exact, p = true, p[1:]
	}
	if len(p) > 0 && p[len(p)-1] == '$' {
		p = p[:len(p)-1]
	}
	return exact, p
}
func verifHasSuffix(s, suf string) bool { return len(s) >= len(suf) && s[len(s)-len(suf):] == suf }

// p accepts every hostname q accepts
func verifRefSuperset(p, q string) bool {
	pe, pb := verifRefParse(p)
	qe, qb := verifRefParse(q)
	if pe {
		return qe && pb == qb
	}
	return verifHasSuffix(qb, pb)
}

func VerifC06_BrokerRejects() {
	ctx := verifNewContext()
	allowed := verifapi.String("allowed", verifapi.Param("plen", 3))
	presumed := verifapi.String("presumed", verifapi.Param("plen", 3))
	// configured the way the broker binary does it (an empty bridge list file is fine here)
	cerr := ctx.InstallBridgeListProfile(strings.NewReader(""), allowed, presumed)
	verifapi.Assert(cerr == nil, "the profile is installed")
	verifPollPattern = verifapi.String("pattern", verifapi.Param("plen", 3))
	verifPollSupported = verifapi.Bool("patternSupported")
	if !verifPollSupported {
		verifPollPattern = ""
	}
	i := &IPC{ctx}
	var resp []byte
	err := i.ProxyPolls(messages.Arg{Body: []byte("poll"), RemoteAddr: ""}, &resp)
	verifapi.Assert(err == nil, "a well-formed poll is answered")
	effective := verifPollPattern
	if !verifPollSupported {
		effective = presumed
	}
	firstSuccess, firstStatus := verifPollSuccess, verifPollStatus
	// C14: whatever happened to this poll, a later request is handled (nothing is left locked)
	{
		regBefore := verifRegistered
		verifPollPattern, verifPollSupported = allowed, true // a proxy that accepts exactly the allowed pattern
		var resp2 []byte
		err2 := i.ProxyPolls(messages.Arg{Body: []byte("poll"), RemoteAddr: ""}, &resp2)
		verifapi.Assert(err2 == nil && verifRegistered == regBefore+1, "C14: a later well-formed poll is still handled after any earlier poll")
		verifRegistered = regBefore
	}
	if !verifRefSuperset(effective, allowed) {
		verifapi.Cover("poll rejected for its relay pattern")
		verifapi.Assert(verifRegistered == 0, "a proxy whose pattern is not a superset of the allowed pattern is never registered (never given a client)")
		verifapi.Assert(!firstSuccess && firstStatus != "no match", "such a poll is explicitly rejected, not answered like an idle poll")
	} else {
		verifapi.Cover("poll admitted")
		verifapi.Assert(verifRegistered == 1, "a proxy whose pattern covers the allowed pattern is registered")
	}
}

func verifSplitHostPort06(s string) (string, string, error) { return "", "", messages.ErrInternal }
