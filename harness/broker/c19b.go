package main

import (
	"errors"
	"io"
	"log"

	"git.torproject.org/pluggable-transports/snowflake.git/v2/common/bridgefingerprint"
	"git.torproject.org/pluggable-transports/snowflake.git/v2/common/ipsetsink/sinkcluster"
	"git.torproject.org/pluggable-transports/snowflake.git/v2/common/messages"
	"git.torproject.org/pluggable-transports/snowflake.git/v2/internal/verifapi"
	"gitlab.torproject.org/tpo/anti-censorship/geoip"
)

// ---- the distinct-IP journal is fed by every poll ----------------------------------------------
//
// "... matches the number of distinct addresses recorded in the chunks inside that window": every
// proxy poll with a usable remote address is recorded in the chunk that is current at that
// moment - a repeated address included (its earlier record may sit in an older chunk).

var verifFed []string

func verifAddIPToSet(w *sinkcluster.ClusterWriter, ip string) { verifFed = append(verifFed, ip) }
func verifRequestOfferIdle(ctx *BrokerContext, id string, proxyType string, natType string, clients int) *ClientOffer {
	return nil // nobody is waiting: the poll ends idle
}
func verifSplitHostPortReal(hostport string) (string, string, error) {
	if hostport == "" {
		return "", "", errors.New("missing port in address (stub)")
	}
	return hostport[:len(hostport)-2], "1", nil // "<ip>:1"
}

func VerifC19_JournalFeed() {
	ctx := verifNewContext()
	ctx.metrics.geoipdb = nil
	if verifapi.Bool("geoip enabled") {
		ctx.metrics.geoipdb = &geoip.Geoip{}
	}
	ctx.metrics.SetIPAddressRecorder(new(sinkcluster.ClusterWriter))
	ctx.metrics.logger = log.New(io.Discard, "", 0)
	verifMetricsLogger = ctx.metrics.logger
	i := &IPC{ctx}
	verifProxyNAT[0], verifProxyNAT[1] = "unrestricted", "restricted"
	addrs := [3]string{"192.0.2.1:1", "192.0.2.2:1", ""}
	var want []string
	n := verifapi.Param("polls", 3)
	for pt := range map[string]bool{"standalone": true, "webext": true} {
		ctx.metrics.countryStats.proxies[pt] = make(map[string]bool)
	}
	for k := 0; k < n; k++ {
		if k > 0 && verifapi.Bool("metrics period rolls over") { // what logMetrics does once per period
			ctx.metrics.lock.Lock()
			ctx.metrics.zeroMetrics()
			ctx.metrics.lock.Unlock()
			verifapi.Cover("a period roll-over between polls")
		}
		a := verifapi.Concrete(verifapi.Choice("remote address", 3))
		var resp []byte
		err := i.ProxyPolls(messages.Arg{Body: []byte{byte(k % 2)}, RemoteAddr: addrs[a]}, &resp)
		verifapi.Assert(err == nil, "an idle poll is answered")
		if addrs[a] != "" {
			want = append(want, addrs[a][:len(addrs[a])-2])
		}
	}
	verifapi.Cover("polls recorded")
	verifapi.Assert(len(verifFed) == len(want), "every poll with a usable remote address is fed to the distinct-IP journal, repeated addresses included")
	for k := range want {
		verifapi.Assert(verifFed[k] == want[k], "the journal is fed the poll's own address")
	}
}

// ---- C02: an offer whose bridge is not (or no longer) in the list is never handed to a proxy -----
//
// The list may be reloaded while a client waits; the proxy-side lookup is the last line of
// defence: without a configured relay URL for the offer's bridge the poll fails, it does not
// answer "client match" with an empty or stale URL.

var verifOfferFP []byte

func verifRequestOfferWith(ctx *BrokerContext, id string, proxyType string, natType string, clients int) *ClientOffer {
	return &ClientOffer{natType: "unknown", sdp: []byte("offer"), fingerprint: verifOfferFP}
}

var verifEncodedMatch, verifEncodedRelay = false, ""

func verifEncodePollResponseRelayRec(offer string, success bool, natType, relayURL, failReason string) ([]byte, error) {
	verifEncodedMatch, verifEncodedRelay = success, relayURL
	return []byte("resp"), nil
}

func VerifC02_PollUnknownBridge() {
	ctx := verifNewContext()
	i := &IPC{ctx}
	verifProxyNAT[0] = "unrestricted"
	known := verifapi.Bool("the offer's bridge is in the list")
	fpHex := verifFPAbsent
	if known {
		fpHex = verifFP2
	}
	fp, _ := bridgefingerprint.FingerprintFromHexString(fpHex)
	verifOfferFP = fp.ToBytes()
	var resp []byte
	err := i.ProxyPolls(messages.Arg{Body: []byte{0}, RemoteAddr: ""}, &resp)
	if known {
		verifapi.Cover("offer for a listed bridge")
		verifapi.Assert(err == nil && verifEncodedMatch && verifEncodedRelay == verifURL2, "C02: the proxy is given the relay URL configured for the offer's bridge")
	} else {
		verifapi.Cover("offer for an unlisted bridge")
		verifapi.Assert(err != nil || !verifEncodedMatch, "C02: an offer whose bridge is not in the list is never handed to a proxy as a match")
	}
}

// ---- C03: the client count a proxy reports reaches the heap unchanged ----------------------------

func VerifC03_CountPlumbing() {
	ctx := verifNewContext()
	go func() { verifapi.Daemon(); ctx.Broker() }()
	n := verifapi.Int("clients")
	go func() { ctx.RequestOffer("sid-a", "standalone", "unrestricted", n) }()
	// look while the poll is waiting (before its time-out fires)
	var sf *Snowflake
	ok := false
	for k := 0; k < 6 && !ok; k++ {
		verifapi.Yield()
		ctx.snowflakeLock.Lock()
		sf, ok = ctx.idToSnowflake["sid-a"]
		ctx.snowflakeLock.Unlock()
	}
	verifapi.Cover("a poll is waiting")
	if ok {
		verifapi.Cover("registered")
		verifapi.Assert(sf.clients == n, "C03: a waiting proxy is ranked by exactly the client count it reported (all integers)")
	}
	verifapi.Quiesce() // let the poll time out and return
}

// C07 / C19: the metrics logger writes the published metrics file, which is not scrubbed: the
// only thing that may go through it are the metrics lines themselves (printMetrics), never
// diagnostics that can quote an address.
var verifInPrintMetrics bool

func verifLoggerPrintlnGuard(l *log.Logger, v ...interface{}) {
	verifapi.Assert(verifMetricsLogger == nil || l != verifMetricsLogger, "C07: request handling writes nothing through the (unscrubbed) metrics logger")
}

var verifMetricsLogger *log.Logger
