package main

// C02: the bridge list - the relay URL kept for a fingerprint is the one configured in that
// fingerprint's own record.  bufio.Scanner runs for real; encoding/json's Decoder is a stub
// with JSON's assignment semantics (only members present in a line are assigned).

import (
	"encoding/json"
	"errors"
	"io"

	"git.torproject.org/pluggable-transports/snowflake.git/v2/common/bridgefingerprint"
	"git.torproject.org/pluggable-transports/snowflake.git/v2/internal/verifapi"
)

type verifListReader struct{ n, pos int }

func (r *verifListReader) Read(p []byte) (int, error) {
	if r.pos >= r.n {
		return 0, io.EOF
	}
	r.pos++
	p[0], p[1] = '{', '\n'
	return 2, nil
}

type verifRecord struct {
	hasName, hasAddr, hasFP bool
	bad                     bool
}

var (
	verifRecords [3]verifRecord
	verifRecIdx  int
	verifAddrs   = [3]string{"wss://one.example/", "wss://two.example/", "wss://three.example/"}
	verifFPs     = [3]string{verifFP1, verifFP2, "1111111111111111111111111111111111111111"}
)

func verifNewDecoder(r io.Reader) *json.Decoder  { return new(json.Decoder) }
func verifDisallowUnknownFields(d *json.Decoder) {}
func verifDecoderDecode(d *json.Decoder, v interface{}) error {
	i := verifRecIdx
	verifRecIdx++
	rec := &verifRecords[i]
	if verifapi.Bool("record.malformed") {
		rec.bad = true
		return errors.New("json: malformed line (stub)")
	}
	b := v.(*BridgeInfo)
	rec.hasName, rec.hasAddr, rec.hasFP = verifapi.Bool("record.hasName"), verifapi.Bool("record.hasAddress"), verifapi.Bool("record.hasFingerprint")
	if rec.hasName {
		b.DisplayName = "name"
	}
	if rec.hasAddr {
		b.WebSocketAddress = verifAddrs[i]
	}
	if rec.hasFP {
		b.Fingerprint = verifFPs[i]
	}
	return nil
}

func VerifC02_BridgeList() {
	n := verifapi.Concrete(verifapi.Choice("records", verifapi.Param("records", 2)+1))
	h := &bridgeListHolder{}
	if verifapi.Bool("holder.preloaded") {
		// the holder already carries an earlier list (NewBrokerContext pre-loads the built-in
		// default bridge; an operator may reload): loading replaces it
		old, _ := bridgefingerprint.FingerprintFromHexString(verifFPAbsent)
		h.bridgeInfo = map[bridgefingerprint.Fingerprint]BridgeInfo{old: {DisplayName: "old", WebSocketAddress: "wss://old.example/", Fingerprint: verifFPAbsent}}
		verifapi.Cover("bridge list reloaded")
	}
	err := h.LoadBridgeInfo(&verifListReader{n: n})
	anyBad := false
	for i := 0; i < n && i < verifRecIdx; i++ {
		if verifRecords[i].bad || !verifRecords[i].hasFP {
			anyBad = true
		}
	}
	if anyBad {
		verifapi.Cover("bridge list rejected")
		verifapi.Assert(err != nil, "a list with a malformed record or a record without a fingerprint is rejected as a whole")
		return
	}
	verifapi.Cover("bridge list loaded")
	verifapi.Assert(err == nil, "a well-formed list is loaded")
	for i := 0; i < n; i++ {
		fp, _ := bridgefingerprint.FingerprintFromHexString(verifFPs[i])
		info, gerr := h.GetBridgeInfo(fp)
		verifapi.Assert(gerr == nil, "every listed fingerprint is known")
		want := ""
		if verifRecords[i].hasAddr {
			want = verifAddrs[i]
		}
		verifapi.Assert(info.WebSocketAddress == want, "the relay URL kept for a fingerprint is the one configured in that fingerprint's own record")
	}
	fpAbsent, _ := bridgefingerprint.FingerprintFromHexString(verifFPAbsent)
	_, gerr := h.GetBridgeInfo(fpAbsent)
	verifapi.Assert(gerr != nil, "a fingerprint absent from the list is not known (also one that an earlier list contained)")
}
