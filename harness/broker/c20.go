package main

// C20: the distinct-IP journal writer is only ever touched under the metrics lock.

import (
	"time"

	"git.torproject.org/pluggable-transports/snowflake.git/v2/common/ipsetsink"
	"git.torproject.org/pluggable-transports/snowflake.git/v2/common/ipsetsink/sinkcluster"
	"git.torproject.org/pluggable-transports/snowflake.git/v2/common/messages"
	"git.torproject.org/pluggable-transports/snowflake.git/v2/internal/verifapi"
)

type verifJournalFile struct{ writes int }

func (f *verifJournalFile) Write(p []byte) (int, error) { f.writes++; return len(p), nil }
func (f *verifJournalFile) Sync() error                 { return nil }

func verifSplitHostPortOK(s string) (string, string, error) { return "192.0.2.1", "1", nil }
func verifNewIPSetSink(key string) *ipsetsink.IPSetSink     { return new(ipsetsink.IPSetSink) }
func verifSinkAdd(s *ipsetsink.IPSetSink, ip string)        {}
func verifSinkDump(s *ipsetsink.IPSetSink) ([]byte, error)  { return []byte("sketch"), nil }
func verifSinkReset(s *ipsetsink.IPSetSink)                 {}
func verifJSONMarshal20(v interface{}) ([]byte, error)      { return []byte("{}"), nil }

func VerifC20_IPJournal() {
	ctx := verifNewContext()
	ctx.metrics.distinctIPWriter = sinkcluster.NewClusterWriter(&verifJournalFile{}, time.Hour, ipsetsink.NewIPSetSink("key"))
	i := &IPC{ctx}
	verifProxyNAT[0], verifProxyNAT[1] = "unrestricted", "unrestricted"
	go func() { verifapi.Daemon(); ctx.Broker() }()
	done := [2]bool{}
	for p := 0; p < 2; p++ {
		p := p
		go func() {
			var resp []byte
			i.ProxyPolls(messages.Arg{Body: []byte{byte(p)}, RemoteAddr: "192.0.2.1:1"}, &resp)
			done[p] = true
		}()
	}
	verifapi.Quiesce()
	verifapi.Cover("two polls recorded")
	verifapi.Assert(done[0] && done[1], "both polls complete")
}
