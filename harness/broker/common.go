package main

// Shared scaffolding of the broker harnesses (C02, C03, C04, C06b, C14, C19): a BrokerContext
// built directly (no geoip, no files, no prometheus registry) and the redirect stubs.

import (
	"io"
	"log"

	"git.torproject.org/pluggable-transports/snowflake.git/v2/common/bridgefingerprint"
	"git.torproject.org/pluggable-transports/snowflake.git/v2/internal/verifapi"
	"github.com/prometheus/client_golang/prometheus"
)

const verifFP1 = "2B280B23E1107BB62ABFC40DDCC8824814F80A72"

// a 32-byte fingerprint that shares its first 20 bytes with verifFP1: the two are different bridges
const verifFP2 = verifFP1 + "0123456789ABCDEF01234567"

// absent from every list, and again sharing 20 bytes with a listed bridge
const verifFPAbsent = verifFP1 + "FFFFFFFFFFFFFFFFFFFFFFFF"
const verifURL1 = "wss://bridge-one.example/"
const verifURL2 = "wss://bridge-two.example/"

func verifNewContext() *BrokerContext {
	fp1, _ := bridgefingerprint.FingerprintFromHexString(verifFP1)
	fp2, _ := bridgefingerprint.FingerprintFromHexString(verifFP2)
	rc := func() *RoundedCounterVec { return &RoundedCounterVec{MetricVec: new(prometheus.MetricVec)} }
	if verifapi.Native() {
		// native replay: the real prometheus objects (the stubs do not exist natively)
		ctx := NewBrokerContext(log.New(io.Discard, "", 0))
		ctx.bridgeList = &bridgeListHolder{bridgeInfo: map[bridgefingerprint.Fingerprint]BridgeInfo{
			fp1: {DisplayName: "one", WebSocketAddress: verifURL1, Fingerprint: verifFP1},
			fp2: {DisplayName: "two", WebSocketAddress: verifURL2, Fingerprint: verifFP2}}}
		return ctx
	}
	pm := &PromMetrics{ProxyTotal: new(prometheus.CounterVec), AvailableProxies: new(prometheus.GaugeVec),
		ProxyPollTotal: rc(), ClientPollTotal: rc(), ProxyPollWithRelayURLExtensionTotal: rc(),
		ProxyPollWithoutRelayURLExtensionTotal: rc(), ProxyPollRejectedForRelayURLExtensionTotal: rc()}
	m := &Metrics{promMetrics: pm}
	m.countryStats = CountryStats{counts: map[string]int{}, proxies: map[string]map[string]bool{}, unknown: map[string]bool{},
		natRestricted: map[string]bool{}, natUnrestricted: map[string]bool{}, natUnknown: map[string]bool{}}
	return &BrokerContext{
		snowflakes: new(SnowflakeHeap), restrictedSnowflakes: new(SnowflakeHeap),
		idToSnowflake: make(map[string]*Snowflake), proxyPolls: make(chan *ProxyPoll), metrics: m,
		bridgeList: &bridgeListHolder{bridgeInfo: map[bridgefingerprint.Fingerprint]BridgeInfo{
			fp1: {DisplayName: "one", WebSocketAddress: verifURL1, Fingerprint: verifFP1},
			fp2: {DisplayName: "two", WebSocketAddress: verifURL2, Fingerprint: verifFP2}}},
	}
}

// every rounded counter lookup yields one shared counter object per vector (labels ignored)
var verifCounters = map[*prometheus.MetricVec]*roundedCounter{}

func verifGetMetricWith(v *prometheus.MetricVec, labels prometheus.Labels) (prometheus.Metric, error) {
	// C19: a count is published under the label combination of its own event - the "nat" label
	// carries a NAT type and the "type" label a proxy type, never the other way round
	if n, has := labels["nat"]; has {
		verifapi.Assert(n == "restricted" || n == "unrestricted" || n == "unknown", "C19: the nat label of a published count carries the event's NAT type")
	}
	if t, has := labels["type"]; has {
		verifapi.Assert(t == "standalone" || t == "webext" || t == "badge" || t == "iptproxy" || t == "unknown", "C19: the type label of a published count carries the event's proxy type")
	}
	c, ok := verifCounters[v]
	if !ok {
		c = &roundedCounter{}
		verifCounters[v] = c
	}
	return c, nil
}

// no-op replacement for (*roundedCounter).Inc where the counters are not the subject
func verifIncNop(c *roundedCounter) {}
