package main

import (
	"git.torproject.org/pluggable-transports/snowflake.git/v2/common/messages"
	"git.torproject.org/pluggable-transports/snowflake.git/v2/internal/verifapi"
)

// VerifC14_DebugWhileBrokering: /debug is served while a proxy registers and times out.
func VerifC14_DebugWhileBrokering() {
	ctx := verifNewContext()
	i := &IPC{ctx}
	verifProxyNAT[0] = "unrestricted"
	go func() { verifapi.Daemon(); ctx.Broker() }()
	pollDone, debugDone := false, false
	go func() {
		var resp []byte
		i.ProxyPolls(messages.Arg{Body: []byte{0}}, &resp)
		pollDone = true
	}()
	go func() {
		var s string
		err := i.Debug(new(interface{}), &s)
		verifapi.Assert(err == nil, "the debug endpoint answers")
		debugDone = true
	}()
	verifapi.Quiesce()
	verifapi.Cover("debug served while brokering")
	verifapi.Assert(pollDone && debugDone, "both requests complete")
}
