package main

// C02 (no cross-wiring) and C04 (every request completes, no ghost registrations): the real
// Broker loop, ProxyPolls, ClientOffers and ProxyAnswers run concurrently under the engine's
// scheduler; every interleaving of their synchronisation operations and every timer expiry
// order is explored (bounded by the number of participants).  Message codecs are stubbed
// per participant (byte 0 of the body names the participant); encoders are sinks.

import (
	"git.torproject.org/pluggable-transports/snowflake.git/v2/common/bridgefingerprint"
	"git.torproject.org/pluggable-transports/snowflake.git/v2/common/messages"
	"git.torproject.org/pluggable-transports/snowflake.git/v2/internal/verifapi"
)

var verifProxyNAT, verifClientNAT [2]string
var verifClientFP [2]string

var verifSids = [2]string{"p0", "p1"}
var verifOffers = [2]string{"offer0", "offer1"}
var verifAnswers = [2]string{"answer0", "answer1"}

func verifDecodeProxyPoll(data []byte) (string, string, string, int, string, bool, error) {
	p := int(data[0])
	return verifSids[p], "standalone", verifProxyNAT[p], 0, "", true, nil
}
func verifDecodeClientPoll(data []byte) (*messages.ClientPollRequest, error) {
	c := int(data[0])
	return &messages.ClientPollRequest{Offer: verifOffers[c], NAT: verifClientNAT[c], Fingerprint: verifClientFP[c]}, nil
}
func verifDecodeAnswer(data []byte) (string, string, error) {
	p := int(data[0])
	if p > 1 {
		return "answer-rogue", "unknown-sid", nil
	}
	return verifAnswers[p], verifSids[p], nil
}
func verifEncodePollResponseRelay(offer string, success bool, natType, relayURL, failReason string) ([]byte, error) {
	if success {
		relay := byte(0)
		if relayURL == verifURL1 {
			relay = 1
		} else if relayURL == verifURL2 {
			relay = 2
		}
		oi := byte(9)
		if len(offer) == 6 {
			oi = offer[5] - '0'
		}
		return []byte{'M', oi, relay}, nil
	}
	return []byte{'N'}, nil
}
func verifEncodePollResponse(offer string, success bool, natType string) ([]byte, error) {
	return verifEncodePollResponseRelay(offer, success, natType, "", "no match")
}
func verifEncodeAnswerResponse(success bool) ([]byte, error) {
	if success {
		return []byte{'S'}, nil
	}
	return []byte{'G'}, nil
}
func verifEncodeClientResp(resp *messages.ClientPollResponse) ([]byte, error) {
	if resp.Answer != "" {
		ai := byte(9)
		if len(resp.Answer) == 7 {
			ai = resp.Answer[6] - '0'
		}
		return []byte{'a', ai}, nil
	}
	switch resp.Error {
	case messages.StrNoProxies:
		return []byte{'e', 1}, nil
	case messages.StrTimedOut:
		return []byte{'e', 2}, nil
	}
	return []byte{'e', 3}, nil
}
func verifSplitHostPort(s string) (string, string, error) { return "", "", messages.ErrInternal }

type verifPollRec struct {
	done     bool
	matched  bool
	offer    int
	relay    int
	answered bool
	ansOK    bool
	rpcErr   bool
}
type verifClientRec struct {
	done   bool
	answer int // -1: none
	errc   int
	rpcErr bool
}

var verifListLacksDefault bool

func verifBrokerScenario(P, C int, rogue bool, symNAT bool) {
	ctx := verifNewContext()
	i := &IPC{ctx}
	var polls [2]verifPollRec
	var clients [2]verifClientRec
	for p := 0; p < P; p++ {
		verifProxyNAT[p] = "unrestricted"
		if symNAT && verifapi.Bool("proxy.restricted") {
			verifProxyNAT[p] = "restricted"
		}
	}
	// the operator's bridge list need not contain the compiled-in default bridge (verifFP1 is its
	// fingerprint): then a client naming it - or naming none - names an absent bridge
	if verifapi.Param("vary_list", 0) == 1 && verifapi.Bool("bridge list without the default bridge") {
		fp1, _ := bridgefingerprint.FingerprintFromHexString(verifFP1)
		delete(ctx.bridgeList.(*bridgeListHolder).bridgeInfo, fp1)
		verifListLacksDefault = true
	}
	var fpChoice [2]int
	for c := 0; c < C; c++ {
		verifClientNAT[c] = "unknown"
		if symNAT && verifapi.Bool("client.unrestricted") {
			verifClientNAT[c] = "unrestricted"
		}
		fpChoice[c] = verifapi.Concrete(verifapi.Choice("client.bridge", 3))
		verifClientFP[c] = [3]string{verifFP1, verifFP2, verifFPAbsent}[fpChoice[c]]
		if fpChoice[c] == 0 && verifListLacksDefault {
			fpChoice[c] = 2 // absent
		}
	}
	go func() { verifapi.Daemon(); ctx.Broker() }()
	for p := 0; p < P; p++ {
		p := p
		go func() {
			var resp []byte
			err := i.ProxyPolls(messages.Arg{Body: []byte{byte(p)}}, &resp)
			polls[p].rpcErr = err != nil
			verifapi.Assert(err == nil, "C02: a well-formed proxy poll is answered with an offer or 'no match' - never consumed by a client that must not be matched")
			if err == nil && len(resp) == 3 && resp[0] == 'M' {
				polls[p].matched, polls[p].offer, polls[p].relay = true, int(resp[1]), int(resp[2])
				if verifapi.Bool("proxy.answers") {
					var r2 []byte
					i.ProxyAnswers(messages.Arg{Body: []byte{byte(p)}}, &r2)
					polls[p].answered = true
					// a (misbehaving or retrying) proxy may post its answer again
					for k := 0; k < verifapi.Param("extra_answers", 0); k++ {
						if !verifapi.Bool("proxy.answersAgain") {
							break
						}
						var r3 []byte
						i.ProxyAnswers(messages.Arg{Body: []byte{byte(p)}}, &r3)
					}
					polls[p].ansOK = len(r2) == 1 && r2[0] == 'S'
				}
			}
			polls[p].done = true
		}()
	}
	for c := 0; c < C; c++ {
		c := c
		go func() {
			var resp []byte
			err := i.ClientOffers(messages.Arg{Body: []byte{byte(c)}}, &resp)
			clients[c].answer = -1
			clients[c].rpcErr = err != nil
			if len(resp) == 2 && resp[0] == 'a' {
				clients[c].answer = int(resp[1])
			} else if len(resp) == 2 {
				clients[c].errc = int(resp[1])
			}
			clients[c].done = true
		}()
	}
	rogueDone := !rogue
	if rogue {
		go func() {
			var r []byte
			i.ProxyAnswers(messages.Arg{Body: []byte{7}}, &r)
			verifapi.Assert(len(r) == 1 && r[0] == 'G', "C02: an answer for an unknown session id is told the client is gone")
			rogueDone = true
		}()
	}
	verifapi.Quiesce()
	verifapi.Cover("quiescent")
	// ---- C04: everything completed, nothing left behind
	for p := 0; p < P; p++ {
		verifapi.Assert(polls[p].done, "C04: proxy poll / answer request never completed")
	}
	for c := 0; c < C; c++ {
		verifapi.Assert(clients[c].done, "C04: client request never completed")
	}
	verifapi.Assert(rogueDone, "C04: answer request for an unknown id never completed")
	verifapi.Assert(len(ctx.idToSnowflake) == 0, "C04: leftover registration in the id map")
	verifapi.Assert(ctx.snowflakes.Len() == 0, "C04: leftover proxy in the unrestricted pool")
	verifapi.Assert(ctx.restrictedSnowflakes.Len() == 0, "C04: leftover proxy in the restricted pool")
	var fresh []byte
	verifClientFP[0], verifClientNAT[0] = verifFP1, "unknown"
	if verifListLacksDefault {
		verifClientFP[0] = verifFP2 // a bridge that is in the list
	}
	i.ClientOffers(messages.Arg{Body: []byte{0}}, &fresh)
	verifapi.Assert(len(fresh) == 2 && fresh[0] == 'e' && fresh[1] == 1, "C04: a fresh client is told there are no proxies")
	// ---- C19: each event is counted exactly once in the counter the metrics spec names for it
	{
		matches, idle, denied := 0, 0, 0
		for c := 0; c < C; c++ {
			if clients[c].answer >= 0 {
				matches++
			}
			if clients[c].errc == 1 {
				denied++
			}
		}
		for p := 0; p < P; p++ {
			if polls[p].done && !polls[p].matched && !polls[p].rpcErr {
				idle++
			}
		}
		m := ctx.metrics
		verifapi.Assert(int(m.clientProxyMatchCount) == matches, "C19: client-snowflake-match-count counts each answered client once")
		verifapi.Assert(int(m.proxyIdleCount) == idle, "C19: snowflake-idle-count counts each idle proxy poll once")
		verifapi.Assert(int(m.clientDeniedCount) == denied+1, "C19: client-denied-count counts each refused client once") // +1: the fresh client above
		verifapi.Assert(int(m.clientRestrictedDeniedCount+m.clientUnrestrictedDeniedCount) == denied+1, "C19: every denial is counted under exactly one NAT class")
		verifapi.Assert(int(m.proxyPollWithRelayURLExtension) == P && m.proxyPollWithoutRelayURLExtension == 0, "C19: every proxy poll is counted once under its relay-URL-extension class")
	}
	// ---- C02: wiring
	for c := 0; c < C; c++ {
		handed := 0
		for p := 0; p < P; p++ {
			if polls[p].matched && polls[p].offer == c {
				handed++
				verifapi.Cover("offer handed to a proxy")
				if fpChoice[c] == 2 {
					verifapi.Assert(false, "C02: a client naming an absent fingerprint was matched")
				} else {
					verifapi.Assert(polls[p].relay == fpChoice[c]+1, "C02: relay URL is the one configured for the fingerprint the client named")
				}
			}
		}
		verifapi.Assert(handed <= 1, "C02: an offer was handed to more than one proxy poll")
		if fpChoice[c] == 2 {
			verifapi.Assert(clients[c].answer < 0, "C02: a client naming an absent fingerprint got an answer")
			verifapi.Assert(clients[c].rpcErr || clients[c].errc != 0, "C02: a client naming an absent fingerprint gets an error")
		}
		if a := clients[c].answer; a >= 0 {
			verifapi.Cover("client answered")
			verifapi.Assert(a < P, "C02: answer from an unknown proxy")
			verifapi.Assert(polls[a].matched && polls[a].offer == c, "C02: the answer comes from the proxy poll that was handed this client's offer")
			verifapi.Assert(polls[a].answered, "C02: the answer was posted by that proxy")
		}
	}
}

func VerifBroker_1P1C() {
	verifBrokerScenario(1, 1, false, verifapi.Param("symnat", 0) != 0)
}
func VerifBroker_2P1C() {
	verifBrokerScenario(2, 1, false, verifapi.Param("symnat", 0) != 0)
}
func VerifBroker_1P2C() {
	verifBrokerScenario(1, 2, false, verifapi.Param("symnat", 0) != 0)
}
func VerifBroker_2P2C() {
	verifBrokerScenario(2, 2, false, verifapi.Param("symnat", 0) != 0)
}
func VerifBroker_1P1CRogue() {
	verifBrokerScenario(1, 1, true, false)
}

// Two proxy polls that carry the same session id (a retried POST, an id collision, a hostile
// proxy) and no client: both polls are answered and nothing stays registered.
func VerifBroker_2P0CDup() {
	verifSids[1] = verifSids[0]
	verifBrokerScenario(2, 0, false, false)
}
