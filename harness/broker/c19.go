package main

// C19: published broker counts are rounded up to 8 and never too low.

import (
	"log"

	"git.torproject.org/pluggable-transports/snowflake.git/v2/internal/verifapi"
	"gitlab.torproject.org/tpo/anti-censorship/geoip"
	"net"
)

func verifCeil8(n uint64) uint64 { return n + ((8 - n%8) % 8) }

// (a) binCount for every count below 2^53 (beyond that float64 cannot represent the count;
// a counter is incremented once per request per 24 h period, so 2^53 is a physical bound)
func VerifC19_BinCount() {
	c := verifapi.Uint64("count")
	verifapi.Assume(c < uint64(1)<<uint(verifapi.Param("bits", 53)))
	r := uint64(binCount(uint(c)))
	verifapi.Cover("binCount")
	ok := verifapi.And(r >= c, verifapi.And(r%8 == 0, r < c+8))
	verifapi.Assert(ok, "a published count is the true count rounded up to the next multiple of 8 (never lower, a multiple of 8, at most 7 above)")
}

// (b) one inductive step of the rounded Prometheus counter
func VerifC19_IncStep() {
	t := verifapi.Uint64("total")
	verifapi.Assume(t < 1<<63)
	c := &roundedCounter{total: t, value: verifCeil8(t)}
	c.Inc()
	verifapi.Cover("Inc step")
	verifapi.Assert(c.total == t+1, "Inc counts one event")
	verifapi.Assert(c.value == verifCeil8(c.total), "the rounded counter equals the true count rounded up to 8")
}

// (b') the same counter incremented by concurrent requests
func VerifC19_IncConcurrent() {
	t := uint64(verifapi.Concrete(verifapi.Choice("start", 9))) // 0..8 events so far
	c := &roundedCounter{total: t, value: verifCeil8(t)}
	n := verifapi.Param("incs", 1)
	done := make(chan bool, 2)
	for g := 0; g < 2; g++ {
		go func() {
			for k := 0; k < n; k++ {
				c.Inc()
			}
			done <- true
		}()
	}
	<-done
	<-done
	verifapi.Cover("concurrent Inc")
	verifapi.Assert(c.total == t+uint64(2*n), "every event is counted")
	verifapi.Assert(c.value == verifCeil8(c.total), "under concurrent increments the rounded counter equals the true count rounded up to 8")
}

// (c) every published label is paired with its own counter
var verifPrinted = map[string]uint{}
var verifPrintedSeen = map[string]bool{}

func verifLoggerPrintln(l *log.Logger, v ...interface{}) {
	if len(v) == 2 {
		if label, ok := v[0].(string); ok {
			switch n := v[1].(type) {
			case uint:
				verifPrinted[label] = n
				verifPrintedSeen[label] = true
			case int:
				verifPrinted[label] = uint(n)
				verifPrintedSeen[label] = true
			}
		}
	}
}
func verifLoggerPrintf(l *log.Logger, format string, v ...interface{}) {
	if format == "snowflake-ips-%s %d\n" && len(v) == 2 {
		verifPrinted["snowflake-ips-"+v[0].(string)] = uint(v[1].(int))
		verifPrintedSeen["snowflake-ips-"+v[0].(string)] = true
	}
}

func verifSmall(name string) uint {
	v := verifapi.Uint64(name)
	verifapi.Assume(v < 1<<20)
	return uint(v)
}

func VerifC19_PrintMetrics() {
	ctx := verifNewContext()
	m := ctx.metrics
	m.logger = log.New(nil, "", 0)
	m.proxyIdleCount = verifSmall("idle")
	m.proxyPollWithRelayURLExtension = verifSmall("with")
	m.proxyPollWithoutRelayURLExtension = verifSmall("without")
	m.proxyPollRejectedWithRelayURLExtension = verifSmall("rejected")
	m.clientDeniedCount = verifSmall("denied")
	m.clientRestrictedDeniedCount = verifSmall("rdenied")
	m.clientUnrestrictedDeniedCount = verifSmall("udenied")
	m.clientProxyMatchCount = verifSmall("match")
	m.countryStats.proxies["standalone"] = map[string]bool{"a": true, "b": true}
	m.countryStats.proxies["webext"] = map[string]bool{"a": true}
	m.countryStats.unknown["c"] = true
	m.countryStats.natRestricted["a"] = true
	m.countryStats.natUnknown["a"] = true
	m.countryStats.natUnknown["b"] = true
	m.printMetrics()
	verifapi.Cover("metrics printed")
	chk := func(label string, field uint) {
		verifapi.Assert(verifPrintedSeen[label], "every count of the spec is published")
		verifapi.Assert(verifPrinted[label] == binCount(field), "each published label carries its own counter, rounded up to 8")
	}
	chk("snowflake-idle-count", m.proxyIdleCount)
	chk("snowflake-proxy-poll-with-relay-url-count", m.proxyPollWithRelayURLExtension)
	chk("snowflake-proxy-poll-without-relay-url-count", m.proxyPollWithoutRelayURLExtension)
	chk("snowflake-proxy-rejected-for-relay-url-count", m.proxyPollRejectedWithRelayURLExtension)
	chk("client-denied-count", m.clientDeniedCount)
	chk("client-restricted-denied-count", m.clientRestrictedDeniedCount)
	chk("client-unrestricted-denied-count", m.clientUnrestrictedDeniedCount)
	chk("client-snowflake-match-count", m.clientProxyMatchCount)
	verifapi.Assert(verifPrinted["snowflake-ips-standalone"] == 2 && verifPrinted["snowflake-ips-webext"] == 1, "per-type unique address figures are the set sizes")
	verifapi.Assert(verifPrinted["snowflake-ips-total"] == 4, "snowflake-ips-total is the sum over the types plus unknown")
	verifapi.Assert(verifPrinted["snowflake-ips-nat-restricted"] == 1 && verifPrinted["snowflake-ips-nat-unrestricted"] == 0 && verifPrinted["snowflake-ips-nat-unknown"] == 2, "per-NAT unique address figures are the set sizes")
	m.zeroMetrics()
	z := m.proxyIdleCount == 0 && m.proxyPollWithRelayURLExtension == 0 && m.proxyPollWithoutRelayURLExtension == 0 &&
		m.proxyPollRejectedWithRelayURLExtension == 0 && m.clientDeniedCount == 0 && m.clientRestrictedDeniedCount == 0 &&
		m.clientUnrestrictedDeniedCount == 0 && m.clientProxyMatchCount == 0
	verifapi.Assert(z, "every counter is reset at the end of the period")
	verifapi.Assert(len(m.countryStats.unknown) == 0 && len(m.countryStats.proxies["standalone"]) == 0 && len(m.countryStats.natUnknown) == 0 && len(m.countryStats.natRestricted) == 0, "the unique-address sets are reset at the end of the period")
}

// (d) unique-address figures count each proxy address once per proxy type
func verifGeoLookup(g *geoip.Geoip, ip net.IP) (string, bool) { return "XX", true }
func verifParseIPNil(s string) net.IP                         { return nil }

func VerifC19_UniqueIPs() {
	ctx := verifNewContext()
	m := ctx.metrics
	m.geoipdb = &geoip.Geoip{}
	geo := !verifapi.Bool("geoip disabled") // -disable-geoip: the unique-address figures are kept all the same
	if !geo {
		m.geoipdb = nil
	}
	for pt := range map[string]bool{"standalone": true, "webext": true} {
		m.countryStats.proxies[pt] = make(map[string]bool)
	}
	addrs := [2]string{"192.0.2.1", "192.0.2.2"}
	types := [3]string{"standalone", "webext", "some-unknown-type"}
	var seen [3][2]bool
	n := verifapi.Param("updates", 4)
	for k := 0; k < n; k++ {
		a := verifapi.Concrete(verifapi.Choice("addr", 2))
		t := verifapi.Concrete(verifapi.Choice("type", 3))
		m.UpdateCountryStats(addrs[a], types[t], "restricted")
		seen[t][a] = true
	}
	cnt := func(t int) int {
		c := 0
		for a := 0; a < 2; a++ {
			if seen[t][a] {
				c++
			}
		}
		return c
	}
	verifapi.Cover("unique addresses")
	verifapi.Assert(len(m.countryStats.proxies["standalone"]) == cnt(0), "each proxy address is counted once per proxy type")
	verifapi.Assert(len(m.countryStats.proxies["webext"]) == cnt(1), "each proxy address is counted once per proxy type")
	verifapi.Assert(len(m.countryStats.unknown) == cnt(2), "addresses of unrecognised proxy types are counted once under unknown")
	if geo {
		verifapi.Assert(m.countryStats.counts["XX"] == cnt(0)+cnt(1)+cnt(2), "the per-country figure counts each (type, address) pair once")
	}
}
