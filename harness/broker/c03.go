package main

// C03: matches respect NAT compatibility, availability and load order.

import (
	"container/heap"

	"git.torproject.org/pluggable-transports/snowflake.git/v2/internal/verifapi"
)

var verifNATNames = [3]string{"unknown", "restricted", "unrestricted"}

type verifRefProxy struct {
	waiting bool
	unres   bool
	clients int
	sf      *Snowflake
}

// VerifC03_MatchHistory: every history of <= ops operations from {a proxy registers with a
// symbolic NAT type and a symbolic client count; a waiting proxy times out (what the timeout
// arm of Broker does under the lock); a client with a symbolic NAT type asks for a match},
// against a reference model that keeps the two pools as plain sets.
func VerifC03_MatchHistory() {
	ctx := verifNewContext()
	i := &IPC{ctx}
	var ref [8]verifRefProxy
	ids := [8]string{"p0", "p1", "p2", "p3", "p4", "p5", "p6", "p7"}
	n := 0
	ops := verifapi.Param("ops", 4)
	for step := 0; step < ops; step++ {
		switch verifapi.Concrete(verifapi.Choice("op", 3)) {
		case 0: // proxy registers
			nat := verifNATNames[verifapi.Concrete(verifapi.Choice("nat", 3))]
			cl := verifapi.Int("clients")
			sf := ctx.AddSnowflake(ids[n], "standalone", nat, cl)
			ref[n] = verifRefProxy{waiting: true, unres: nat == "unrestricted", clients: cl, sf: sf}
			n++
		case 1: // waiting proxy k times out
			k := verifapi.Concrete(verifapi.Choice("k", 4))
			if k < n && ref[k].waiting {
				if ref[k].unres {
					heap.Remove(ctx.snowflakes, ref[k].sf.index)
				} else {
					heap.Remove(ctx.restrictedSnowflakes, ref[k].sf.index)
				}
				ref[k].waiting = false
			}
		case 2: // client asks for a match
			cn := verifapi.Concrete(verifapi.Choice("cnat", 3))
			cnat := verifNATNames[cn]
			wantUnres := cnat != "unrestricted" // restricted/unknown clients need unrestricted proxies
			got := i.matchSnowflake(cnat)
			any := false
			for k := 0; k < n; k++ {
				if ref[k].waiting && ref[k].unres == wantUnres {
					any = true
				}
			}
			verifapi.Assert((got != nil) == any, "a client is refused iff no proxy of its eligible pool is waiting")
			if got != nil {
				verifapi.Cover("matched")
				who := -1
				for k := 0; k < n; k++ {
					if ref[k].sf == got {
						who = k
					}
				}
				verifapi.Assert(who >= 0, "the matched proxy is a registered proxy")
				verifapi.Assert(ref[who].waiting, "the matched proxy was still waiting")
				verifapi.Assert(ref[who].unres == wantUnres, "the matched proxy is from the client's eligible pool (NAT compatibility)")
				for k := 0; k < n; k++ {
					if ref[k].waiting && ref[k].unres == wantUnres {
						verifapi.Assert(ref[who].clients <= ref[k].clients, "the matched proxy has the smallest client count of the eligible pool")
					}
				}
				ref[who].waiting = false
			} else {
				verifapi.Cover("refused")
			}
		}
	}
}
