package main

// C19: what the rounded Prometheus counter *publishes* (its Write method, the prometheus.Metric
// interface) is the true count rounded up to a multiple of 8 — from every state Inc can reach,
// directly and after one more Inc.

import (
	dto "github.com/prometheus/client_model/go"

	"git.torproject.org/pluggable-transports/snowflake.git/v2/internal/verifapi"
)

func verifPublished(c *roundedCounter) uint64 {
	var m dto.Metric
	err := c.Write(&m)
	verifapi.Assert(err == nil, "Write succeeds")
	verifapi.Assert(m.Counter != nil && m.Counter.Value != nil, "Write publishes a counter value")
	return uint64(*m.Counter.Value)
}

func VerifC19_Published() {
	t := verifapi.Uint64("total")
	verifapi.Assume(t < uint64(1)<<uint(verifapi.Param("bits", 40)))
	c := &roundedCounter{total: t, value: verifCeil8(t)}
	if verifapi.Bool("after an Inc") {
		c.Inc()
		t++
	}
	p := verifPublished(c)
	verifapi.Cover("published")
	ok := verifapi.And(p >= t, verifapi.And(p%8 == 0, p < t+8))
	verifapi.Assert(ok, "the published counter value is the true count rounded up to the next multiple of 8 (never lower, at most 7 above)")
}
