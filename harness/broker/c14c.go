package main

// C14 / C02: the 100 KB request limit. A body of exactly the limit is processed whole; a longer
// one is answered with an error status and is never handed to the message layer truncated.
// io.ReadAll and http.MaxBytesReader run for real on bodies of 100000 and 100001 bytes.

import (
	"io"
	"net/http"

	"git.torproject.org/pluggable-transports/snowflake.git/v2/common/messages"
	"git.torproject.org/pluggable-transports/snowflake.git/v2/internal/verifapi"
)

type verifBigBody struct {
	n, pos int
}

func (b *verifBigBody) Read(p []byte) (int, error) {
	if b.pos >= b.n {
		return 0, io.EOF
	}
	k := len(p)
	if k > b.n-b.pos {
		k = b.n - b.pos
	}
	if k > 0 {
		p[0] = '1' // (the content does not matter: the message layer is a recorder here)
	}
	b.pos += k
	return k, nil
}
func (b *verifBigBody) Close() error { return nil }

var verifSeenBody = -1

func verifIPCRecord(arg messages.Arg, response *[]byte) error {
	verifSeenBody = len(arg.Body)
	return messages.ErrBadRequest
}
func verifIPCProxyPolls(i *IPC, arg messages.Arg, response *[]byte) error {
	return verifIPCRecord(arg, response)
}
func verifIPCClientOffers(i *IPC, arg messages.Arg, response *[]byte) error {
	return verifIPCRecord(arg, response)
}
func verifIPCProxyAnswers(i *IPC, arg messages.Arg, response *[]byte) error {
	return verifIPCRecord(arg, response)
}

func VerifC14_BodyLimit() {
	i := &IPC{}
	size := readLimit + verifapi.Concrete(verifapi.Choice("over the limit by", 2))
	w := &verifRecorder{hdr: http.Header{}}
	r := verifRequest("POST", "/x")
	r.Body = &verifBigBody{n: size}
	switch verifapi.Concrete(verifapi.Choice("endpoint", 3)) {
	case 0:
		proxyPolls(i, w, r)
	case 1:
		clientOffers(i, w, r)
	case 2:
		proxyAnswers(i, w, r)
	}
	if size <= readLimit {
		verifapi.Cover("body of exactly the limit")
		verifapi.Assert(verifSeenBody == size, "a body of exactly the limit is handed on whole")
	} else {
		verifapi.Cover("body beyond the limit")
		verifapi.Assert(w.status >= 400, "a body beyond the limit is answered with an error status")
		verifapi.Assert(verifSeenBody == -1, "a body beyond the limit is never handed on, truncated or not")
	}
}
