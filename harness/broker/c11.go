package main

// C11 (d): the broker's AMP endpoint hands the decoded poll to the same ClientOffers the POST
// endpoint uses and armors exactly its response.

import (
	"io"
	"net/http"

	"git.torproject.org/pluggable-transports/snowflake.git/v2/common/amp"
	"git.torproject.org/pluggable-transports/snowflake.git/v2/common/messages"
	"git.torproject.org/pluggable-transports/snowflake.git/v2/internal/verifapi"
)

var (
	verifGotBody   []byte
	verifCOCalls   int
	verifCOFails   bool
	verifArmored   []byte
	verifArmorOpen int
	verifArmorDone int
)

func verifClientOffers11(i *IPC, arg messages.Arg, response *[]byte) error {
	verifCOCalls++
	verifGotBody = arg.Body
	if verifapi.Bool("ClientOffers.fails") {
		verifCOFails = true
		return messages.ErrInternal
	}
	*response = []byte("RESPONSE")
	return nil
}

type verifArmorRec struct{}

func (verifArmorRec) Write(p []byte) (int, error) {
	verifArmored = append(verifArmored, p...)
	return len(p), nil
}
func (verifArmorRec) Close() error { verifArmorDone++; return nil }
func verifNewArmorEncoder(w io.Writer) (io.WriteCloser, error) {
	verifArmorOpen++
	return verifArmorRec{}, nil
}
func verifEncodeErrResp(resp *messages.ClientPollResponse) ([]byte, error) {
	return []byte("ERR:" + resp.Error), nil
}

func VerifC11_AMPEndpoint() {
	ctx := verifNewContext()
	i := &IPC{ctx}
	data := verifapi.Bytes("poll", verifapi.Param("dlen", 3))
	n := verifapi.Concrete(len(data))
	data = data[:n]
	path := "/amp/client/" + amp.EncodePath(data)
	bad := verifapi.Bool("undecodable")
	if bad {
		path = "/amp/client/0nodata"
	}
	w := &verifRecorder{hdr: http.Header{}}
	ampClientOffers(i, w, verifRequest("GET", path))
	if bad {
		verifapi.Cover("amp endpoint: undecodable path")
		verifapi.Assert(verifCOCalls == 0, "an undecodable path never reaches the matching logic")
		verifapi.Assert(string(verifArmored) == "ERR:cannot decode URL path", "an undecodable path is answered with the armored error response")
		return
	}
	verifapi.Assert(verifCOCalls == 1, "the poll is handed to ClientOffers once")
	verifapi.Assert(len(verifGotBody) == n, "the poll handed to ClientOffers is the decoded URL path")
	for k := 0; k < n; k++ {
		verifapi.Assert(verifGotBody[k] == data[k], "the poll handed to ClientOffers is the decoded URL path")
	}
	if verifCOFails {
		verifapi.Cover("amp endpoint: internal error")
		verifapi.Assert(w.status >= 500 && verifArmorOpen == 0, "an internal error is answered with an error status")
		return
	}
	verifapi.Cover("amp endpoint: response armored")
	verifapi.Assert(w.status == 200, "the AMP endpoint answers 200")
	verifapi.Assert(string(verifArmored) == "RESPONSE", "the AMP endpoint armors exactly the poll response the POST endpoint gives")
	verifapi.Assert(verifArmorOpen == 1 && verifArmorDone == 1, "the armor is opened and closed once")
}
