package main

// C11 (d): the broker's AMP endpoint hands the decoded poll to the same ClientOffers the POST
// endpoint uses and armors exactly its response.

import (
	"io"
	"net/http"

	"git.torproject.org/pluggable-transports/snowflake.git/v2/common/amp"
	"git.torproject.org/pluggable-transports/snowflake.git/v2/common/messages"
	"git.torproject.org/pluggable-transports/snowflake.git/v2/internal/verifapi"
)

var (
	verifGotBody   []byte
	verifCOCalls   int
	verifCOFails   bool
	verifArmored   []byte
	verifArmorOpen int
	verifArmorDone int
)

func verifClientOffers11(i *IPC, arg messages.Arg, response *[]byte) error {
	verifCOCalls++
	verifGotBody = arg.Body
	if verifapi.Bool("ClientOffers.fails") {
		verifCOFails = true
		return messages.ErrInternal
	}
	*response = []byte("RESPONSE")
	return nil
}

type verifArmorRec struct{}

func (verifArmorRec) Write(p []byte) (int, error) {
	verifArmored = append(verifArmored, p...)
	return len(p), nil
}
func (verifArmorRec) Close() error { verifArmorDone++; return nil }
func verifNewArmorEncoder(w io.Writer) (io.WriteCloser, error) {
	verifArmorOpen++
	return verifArmorRec{}, nil
}
func verifEncodeErrResp(resp *messages.ClientPollResponse) ([]byte, error) {
	return []byte("ERR:" + resp.Error), nil
}

func VerifC11_AMPEndpoint() {
	ctx := verifNewContext()
	i := &IPC{ctx}
	data := verifapi.Bytes("poll", verifapi.Param("dlen", 3))
	n := verifapi.Concrete(len(data))
	data = data[:n]
	// what follows the routing prefix: an encoded poll, possibly preceded by stray bytes (extra
	// slashes, a repeated prefix, anything), or something without a data segment
	junk := verifapi.String("junk", 2)
	rest := junk + amp.EncodePath(data)
	if verifapi.Bool("undecodable") {
		rest = "0nodata"
	}
	// reference: the path codec applied to exactly the bytes after the prefix (the codec itself
	// is decided by the path-* jobs)
	want, werr := amp.DecodePath(rest)
	w := &verifRecorder{hdr: http.Header{}}
	ampClientOffers(i, w, verifRequest("GET", "/amp/client/"+rest))
	if werr != nil {
		verifapi.Cover("amp endpoint: undecodable path")
		verifapi.Assert(verifCOCalls == 0, "an undecodable path never reaches the matching logic")
		verifapi.Assert(string(verifArmored) == "ERR:cannot decode URL path", "an undecodable path is answered with the armored error response")
		return
	}
	if len(junk) == 0 {
		verifapi.Assert(len(want) == n, "a well-formed path decodes to the poll")
	}
	verifapi.Assert(verifCOCalls == 1, "the poll is handed to ClientOffers once")
	verifapi.Assert(len(verifGotBody) == len(want), "the poll handed to ClientOffers is the decoding of exactly what follows the routing prefix")
	for k := 0; k < len(want) && k < 8; k++ {
		verifapi.Assert(verifGotBody[k] == want[k], "the poll handed to ClientOffers is the decoding of exactly what follows the routing prefix")
	}
	if verifCOFails {
		verifapi.Cover("amp endpoint: internal error")
		verifapi.Assert(w.status >= 500 && verifArmorOpen == 0, "an internal error is answered with an error status")
		return
	}
	verifapi.Cover("amp endpoint: response armored")
	verifapi.Assert(w.status == 200, "the AMP endpoint answers 200")
	verifapi.Assert(string(verifArmored) == "RESPONSE", "the AMP endpoint armors exactly the poll response the POST endpoint gives")
	verifapi.Assert(verifArmorOpen == 1 && verifArmorDone == 1, "the armor is opened and closed once")
}
