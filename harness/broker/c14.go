package main

// C14: every HTTP request to the broker gets a well-formed response.  The handlers run for
// real; net/http's request parsing is outside the claim (the request object is built
// directly), the request body is "arbitrary bytes or a read error" (the >100 KB case is the
// error outcome of MaxBytesReader), encoding/json is replaced by loop-back/havoc stubs.

import (
	"encoding/json"
	"errors"
	"io"
	"net/http"
	"net/url"
	"strconv"
	"strings"

	"git.torproject.org/pluggable-transports/snowflake.git/v2/common/messages"
	"git.torproject.org/pluggable-transports/snowflake.git/v2/internal/verifapi"
)

type verifRecorder struct {
	hdr    http.Header
	status int
	body   []byte
	writes int
}

func (r *verifRecorder) Header() http.Header { return r.hdr }
func (r *verifRecorder) Write(p []byte) (int, error) {
	if r.status == 0 {
		r.status = 200
	}
	r.writes++
	r.body = append(r.body, p...)
	return len(p), nil
}
func (r *verifRecorder) WriteHeader(code int) {
	if r.status == 0 {
		r.status = code
	}
}

var (
	verifShimSeen  bool
	verifShimReq   messages.ClientPollRequest
	verifBodyBytes []byte
	verifBodyErr   bool
	verifNATHeader string
	verifJSONLast  interface{}
	verifJSONBytes = []byte(`{"json":"stub"}`)
)

func verifReadAll(r io.Reader) ([]byte, error) {
	if verifBodyErr {
		return nil, errors.New("http: request body too large")
	}
	return verifBodyBytes, nil
}
func verifMaxBytesReader(w http.ResponseWriter, r io.ReadCloser, n int64) io.ReadCloser { return r }
func verifHeaderGet(h http.Header, key string) string {
	if key == "Snowflake-NAT-Type" {
		return verifNATHeader
	}
	return ""
}
func verifHeaderSet(h http.Header, key, value string) {
	if key == "Content-Length" { // the one header the completeness of a response depends on
		h[key] = []string{value}
	}
}

// lengthOK: a handler that declares a Content-Length sends exactly that many bytes (net/http
// cuts the connection otherwise and the peer sees a truncated response).
func (r *verifRecorder) lengthOK() bool {
	v, ok := r.hdr["Content-Length"]
	if !ok || len(v) == 0 {
		return true
	}
	return v[0] == strconv.Itoa(len(r.body))
}

// encoding/json: Marshal records the value, Unmarshal hands the last recorded value back
// (loop-back: the broker decodes what the shim / the IPC layer just encoded), or fails when
// nothing of the right type was encoded (= the body was not produced by an encoder: garbage)
func verifJSONMarshal14(v interface{}) ([]byte, error) {
	switch x := v.(type) {
	case *messages.ClientPollRequest:
		verifJSONLast = *x
		if !verifShimSeen {
			verifShimSeen, verifShimReq = true, *x
		}
	case *messages.ClientPollResponse:
		verifJSONLast = *x
		if verifSymbolicResponse {
			// the encoded response: JSON text with arbitrary bytes inside (an SDP answer may
			// contain any character, '%' included)
			verifLastEncoded = []byte("{\"answer\":\"" + verifapi.String("json.response", 2) + "\"}")
			return verifLastEncoded, nil
		}
	default:
		verifJSONLast = v
	}
	return verifJSONBytes, nil
}

var (
	verifSymbolicResponse bool
	verifLastEncoded      []byte
)

func verifJSONUnmarshal14(data []byte, v interface{}) error {
	switch t := v.(type) {
	case *messages.ClientPollRequest:
		if x, ok := verifJSONLast.(messages.ClientPollRequest); ok {
			*t = x
			return nil
		}
	case *messages.ClientPollResponse:
		if x, ok := verifJSONLast.(messages.ClientPollResponse); ok {
			*t = x
			return nil
		}
	}
	return errors.New("json: cannot unmarshal (stub)")
}

func verifRequest(method, path string) *http.Request {
	return &http.Request{Method: method, URL: &url.URL{Path: path}, Header: http.Header{}, Body: io.NopCloser(strings.NewReader("")), RemoteAddr: "192.0.2.7:1234"}
}

// VerifC14_LegacyClient: a legacy-format client request (body starting with '{', NAT type in a
// header) is answered like its versioned equivalent - in particular every error the versioned
// path reports is answered with an error status, not a dropped connection.
func VerifC14_LegacyClient() {
	ctx := verifNewContext()
	i := &IPC{ctx}
	verifNATHeader = verifapi.String("nat.header", verifapi.Param("natlen", 7))
	switch verifapi.Concrete(verifapi.Choice("nat.known", 4)) {
	case 0:
		verifNATHeader = "unknown"
	case 1:
		verifNATHeader = "restricted"
	case 2:
		verifNATHeader = "unrestricted"
	}
	rest := verifapi.String("body.rest", 3)
	verifBodyBytes = []byte("{" + rest)
	w := &verifRecorder{hdr: http.Header{}}
	r := verifRequest("POST", "/client")
	r.Header.Set("Snowflake-NAT-Type", verifNATHeader) // the real net/http header map (canonical keys)
	if verifapi.Native() {
		r.Body = io.NopCloser(strings.NewReader(string(verifBodyBytes)))
	}
	SnowflakeHandler{i, clientOffers}.ServeHTTP(w, r)
	verifapi.Cover("legacy request answered")
	verifapi.Assert(w.lengthOK(), "a declared Content-Length is the number of body bytes sent (legacy client)")
	// the shim hands the matching logic exactly the versioned equivalent: the body as the
	// offer, the header as the NAT type
	verifapi.Assert(verifShimSeen, "the legacy request is re-encoded as a versioned poll")
	verifapi.Assert(verifShimReq.Offer == string(verifBodyBytes), "the legacy body becomes the offer of the versioned poll")
	verifapi.Assert(verifShimReq.NAT == verifNATHeader, "the Snowflake-NAT-Type header becomes the NAT type of the versioned poll")
	valid := verifNATHeader == "" || verifNATHeader == "unknown" || verifNATHeader == "restricted" || verifNATHeader == "unrestricted"
	if valid {
		verifapi.Cover("legacy: valid NAT header")
		verifapi.Assert(w.status == http.StatusServiceUnavailable, "a legacy client on a broker without proxies is answered 503 like the versioned 'no proxies'")
	} else {
		verifapi.Cover("legacy: invalid NAT header")
		verifapi.Assert(w.status >= 400, "a legacy request the versioned path rejects is answered with an error status")
		verifapi.Assert(w.status != http.StatusServiceUnavailable && w.status != http.StatusGatewayTimeout, "a rejected legacy request is not reported as 'no proxies' or 'timed out' (it is treated like its versioned equivalent)")
	}
}

// VerifC14_Endpoints: one request to any endpoint with any method and any body outcome, then a
// follow-up client request: every handler returns (no panic, no hang) and the broker still
// answers the follow-up.
func VerifC14_Endpoints() {
	ctx := verifNewContext()
	i := &IPC{ctx}
	method := [3]string{"POST", "GET", "OPTIONS"}[verifapi.Concrete(verifapi.Choice("method", 3))]
	verifBodyErr = verifapi.Bool("body.readError")
	verifBodyBytes = verifapi.Bytes("body", verifapi.Param("bodylen", 5))
	w := &verifRecorder{hdr: http.Header{}}
	ep := verifapi.Concrete(verifapi.Choice("endpoint", 7))
	switch ep {
	case 0:
		// a proxy poll that passes decoding would wait for the 10 s timeout in RequestOffer:
		// that path is C04's subject; here only rejected polls are driven through the handler
		SnowflakeHandler{i, proxyPolls}.ServeHTTP(w, verifRequest(method, "/proxy"))
	case 1:
		SnowflakeHandler{i, clientOffers}.ServeHTTP(w, verifRequest(method, "/client"))
	case 2:
		SnowflakeHandler{i, proxyAnswers}.ServeHTTP(w, verifRequest(method, "/answer"))
	case 3:
		SnowflakeHandler{i, debugHandler}.ServeHTTP(w, verifRequest(method, "/debug"))
	case 4:
		robotsTxtHandler(w, verifRequest(method, "/robots.txt"))
	case 5:
		MetricsHandler{"", metricsHandler}.ServeHTTP(w, verifRequest(method, "/metrics"))
	case 6:
		p := "/amp/client/" + verifapi.String("amp.path", 3)
		if verifapi.Bool("amp.noprefix") {
			p = "/other"
		}
		SnowflakeHandler{i, ampClientOffers}.ServeHTTP(w, verifRequest(method, p))
	}
	verifapi.Cover("endpoint answered")
	verifapi.Assert(w.lengthOK(), "a declared Content-Length is the number of body bytes sent")
	if method != "OPTIONS" && verifBodyErr && ep <= 2 {
		verifapi.Cover("oversized or unreadable body")
		verifapi.Assert(w.status >= 400, "a body beyond the limit is answered with an error status")
	}
	// follow-up: a well-formed client poll is still answered (no proxies)
	verifBodyErr = false
	verifJSONLast = messages.ClientPollRequest{Offer: "offer", NAT: "unknown", Fingerprint: verifFP1}
	verifBodyBytes = append([]byte("1.0\n"), verifJSONBytes...)
	w2 := &verifRecorder{hdr: http.Header{}}
	verifSymbolicResponse = !verifapi.Native()
	SnowflakeHandler{i, clientOffers}.ServeHTTP(w2, verifRequest("POST", "/client"))
	verifSymbolicResponse = false
	verifapi.Cover("follow-up answered")
	verifapi.Assert(w2.lengthOK(), "a declared Content-Length is the number of body bytes sent (follow-up)")
	verifapi.Assert(w2.status == 200, "a later well-formed client poll is still answered")
	if !verifapi.Native() {
		verifapi.Assert(string(w2.body) == string(verifLastEncoded), "the body sent to the client is exactly the encoded response, whatever bytes it contains")
	}
	resp, ok := verifJSONLast.(messages.ClientPollResponse)
	verifapi.Assert(ok && resp.Error == messages.StrNoProxies, "the follow-up client is told there are no proxies")
}

var _ = json.Marshal
