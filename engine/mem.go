package main

import (
	"fmt"
	"go/types"
)

// ---------- byte stores ----------
// A ByteStore is a mutable sequence of bytes with symbolic content.
// flat: concrete length, per-index terms. hist: write history with range copies.
type histNode struct {
	kind   int // 0 base-zero, 1 base-sym(name), 2 put, 3 copy, 4 flat snapshot
	prev   *histNode
	idx    *Term // put index (64-bit)
	val    *Term // put value (8-bit)
	dstOff *Term
	src    *histNode
	srcOff *Term
	n      *Term
	name   string
	flat   []*Term
	m      *Machine
}

type ByteStore struct {
	flat []*Term   // if non-nil: flat mode
	h    *histNode // history mode
	id   int
}

func newFlat(n int) *ByteStore {
	f := make([]*Term, n)
	z := BV(8, 0)
	for i := range f {
		f[i] = z
	}
	return &ByteStore{flat: f}
}
func newFlatFrom(b []byte) *ByteStore {
	s := newFlat(len(b))
	for i, c := range b {
		s.flat[i] = BV(8, uint64(c))
	}
	return s
}

// newSymStore: a store of unbounded size whose content is an uninterpreted function of the
// index.  Reads are Ackermannised: one fresh byte variable per distinct index term plus the
// functional-consistency constraints against the earlier reads of the same base.
func (m *Machine) newSymStore(name string) *ByteStore {
	return &ByteStore{h: &histNode{kind: 1, name: name, m: m}}
}

func (m *Machine) symRead(name string, idx *Term) *Term {
	if m.symReads == nil {
		m.symReads = map[string][]symRead{}
	}
	for _, r := range m.symReads[name] {
		if r.idx == idx {
			return r.val
		}
	}
	var v *Term
	if idx.isC {
		v = m.newVarNamed(fmt.Sprintf("%s[%d]", name, idx.c), 8)
	} else {
		v = m.newVarNamed(fmt.Sprintf("%s[t%d]", name, len(m.symReads[name])), 8)
	}
	if m.concrete == nil {
		for _, r := range m.symReads[name] {
			c := Or(Not(Eq(idx, r.idx)), Eq(v, r.val))
			if c != True {
				m.pc = append(m.pc, c)
				m.sol.Assert(c)
			}
		}
	}
	m.symReads[name] = append(m.symReads[name], symRead{idx, v})
	return v
}
func newZeroHist() *ByteStore {
	return &ByteStore{h: &histNode{kind: 0}}
}

func (s *ByteStore) promote() {
	if s.flat != nil {
		s.h = &histNode{kind: 4, flat: s.flat}
		s.flat = nil
	}
}

// snapshot returns an immutable history node for the current content
func (s *ByteStore) snapshot() *histNode {
	if s.flat != nil {
		cp := make([]*Term, len(s.flat))
		copy(cp, s.flat)
		return &histNode{kind: 4, flat: cp}
	}
	return s.h
}

func readHist(h *histNode, idx *Term) *Term {
	switch h.kind {
	case 0:
		return BV(8, 0)
	case 1:
		return h.m.symRead(h.name, idx)
	case 4:
		if idx.isC {
			if int(idx.c) < len(h.flat) {
				return h.flat[idx.c]
			}
			return BV(8, 0)
		}
		return muxTree(h.flat, idx)
	case 2:
		c := Eq(idx, h.idx)
		if c == True {
			return h.val
		}
		rest := readHist(h.prev, idx)
		return Ite(c, h.val, rest)
	case 3:
		in := And(Cmp("bvule", h.dstOff, idx), Cmp("bvult", idx, Bin("bvadd", h.dstOff, h.n)))
		if in == False {
			return readHist(h.prev, idx)
		}
		sidx := Bin("bvadd", Bin("bvsub", idx, h.dstOff), h.srcOff)
		sv := readHist(h.src, sidx)
		if in == True {
			return sv
		}
		return Ite(in, sv, readHist(h.prev, idx))
	}
	panic("bad hist")
}

// balanced mux over a table with a symbolic index (out of range -> 0)
func muxTree(tab []*Term, idx *Term) *Term {
	n := len(tab)
	if n == 0 {
		return BV(8, 0)
	}
	nb := 0
	for (1 << uint(nb)) < n {
		nb++
	}
	var rec func(lo, bit int) *Term
	rec = func(lo, bit int) *Term {
		if lo >= n {
			return BV(8, 0)
		}
		if bit < 0 {
			return tab[lo]
		}
		b := Eq(Extract(bit, bit, idx), BV(1, 1))
		return Ite(b, rec(lo+(1<<uint(bit)), bit-1), rec(lo, bit-1))
	}
	r := rec(0, nb-1)
	if nb < 64 {
		hi := Extract(63, nb, idx)
		r = Ite(Eq(hi, BV(64-nb, 0)), r, BV(8, 0))
	}
	return r
}

func (s *ByteStore) Read(idx *Term) *Term {
	if s.flat != nil {
		if idx.isC {
			if idx.c >= uint64(len(s.flat)) {
				panic(fmt.Sprintf("flat read oob %d/%d", idx.c, len(s.flat)))
			}
			return s.flat[idx.c]
		}
		return muxTree(s.flat, idx)
	}
	return readHist(s.h, idx)
}

func (s *ByteStore) Write(idx, val *Term) {
	if s.flat != nil && idx.isC && idx.c < uint64(len(s.flat)) {
		s.flat[idx.c] = val
		return
	}
	s.promote()
	s.h = &histNode{kind: 2, prev: s.h, idx: idx, val: val}
}

// CopyIn: s[dstOff:dstOff+n] = src[srcOff:srcOff+n]
func (s *ByteStore) CopyIn(dstOff *Term, src *ByteStore, srcOff, n *Term) {
	if n.isC && n.c == 0 {
		return
	}
	if n.isC && dstOff.isC && srcOff.isC && n.c <= 4096 && (s.flat != nil) {
		// elementwise (handles overlap when src==s by buffering)
		tmp := make([]*Term, n.c)
		for i := uint64(0); i < n.c; i++ {
			tmp[i] = src.Read(BV(64, srcOff.c+i))
		}
		for i := uint64(0); i < n.c; i++ {
			s.flat[dstOff.c+i] = tmp[i]
		}
		return
	}
	snap := src.snapshot()
	s.promote()
	s.h = &histNode{kind: 3, prev: s.h, dstOff: dstOff, src: snap, srcOff: srcOff, n: n}
}

// ---------- values ----------
type Value interface{}

type Tuple []Value
type Struct []Value // in-slot storage; copied on load
type Array []Value  // non-byte arrays

// byte array value / storage ([N]byte)
type ByteArr struct {
	st *ByteStore
	n  int
}

type Bytes struct { // []byte
	st            *ByteStore
	off, len, cap *Term
	maxLen        int
}
type String struct {
	h        *histNode // immutable content
	off, len *Term
	maxLen   int
	lit      *string // concrete literal if known
}
type Slice struct { // non-byte slice
	arr           *[]Value
	off, len, cap int
	et            types.Type
}
type SlotPtr struct{ p *Value } // pointer to a value slot
type BytePtr struct {           // pointer to a byte inside a store
	st  *ByteStore
	off *Term
}
type ByteArrPtr struct { // pointer to [N]byte living in a store at offset
	st  *ByteStore
	off *Term
	n   int
}
type NilPtr struct{}
type Iface struct {
	t types.Type // dynamic type, nil => nil interface
	v Value
}
type Closure struct {
	fn   interface{} // *ssa.Function
	free []Value
}
type MapObj struct {
	keys []Value
	vals []Value
	kt   types.Type
	vt   types.Type
}
type Opaque struct {
	tag string
	id  int
}

func strLit(s string) String {
	st := newFlatFrom([]byte(s))
	return String{h: st.snapshot(), off: BV(64, 0), len: BV(64, uint64(len(s))), maxLen: len(s), lit: &s}
}
