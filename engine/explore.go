package main

import (
	"fmt"
	"go/token"
	"os"
	"path/filepath"
	"runtime/debug"
	"sort"
	"strings"
	"sync"
	"time"

	"golang.org/x/tools/go/packages"
	"golang.org/x/tools/go/ssa"
	"golang.org/x/tools/go/ssa/ssautil"
)

// repoDir is /repo; VERIF_REPO points the engine at a scratch worktree instead (used only by
// tools/seed_run.sh so that seeded changes never have to touch /repo itself)
var repoDir = func() string {
	if d := os.Getenv("VERIF_REPO"); d != "" {
		return d
	}
	return "/repo"
}()

const modPath = "git.torproject.org/pluggable-transports/snowflake.git/v2"

// JobSpec describes one harness run (one entry of /verif/checks/<id>.json).
type JobSpec struct {
	Name        string                    `json:"name"`
	Pkg         string                    `json:"pkg"`   // e.g. ./common/encapsulation
	Files       []string                  `json:"files"` // harness files, relative to /verif
	Fn          string                    `json:"fn"`
	Conc        bool                      `json:"conc"`
	IgnoreGo    bool                      `json:"ignore_go"` // sequential harness: a go statement starts nothing (stated in the job: goroutine bodies are outside the claim)
	Redirects   map[string]string         `json:"redirects"`
	Params      map[string]map[string]int `json:"params"` // tier -> name -> value
	Tiers       []string                  `json:"tiers"`  // tiers that run this job (default: all)
	MaxPaths    int                       `json:"max_paths"`
	LoopBound   int                       `json:"loop_bound"`
	SchedBound  int                       `json:"sched_bound"`
	OptCovers   []string                  `json:"optional_covers"`
	Replay      string                    `json:"replay"` // "native" (default for sequential) | "interp"
	QueryMs     map[string]int            `json:"query_ms"`
	NoSleep     bool                      `json:"no_sleep"`
	Stubs       []string                  `json:"stubs"`   // documentation: stub contracts, copied to evidence
	Outside     []string                  `json:"outside"` // documentation: what is outside the claim
	Bounds      map[string]string         `json:"bounds"`  // documentation per tier
	Havoc       []string                  `json:"havoc"`   // extra callee prefixes to havoc instead of enter
	Enter       []string                  `json:"enter"`   // callee prefixes to enter although on the stop list
	Workers     int                       `json:"workers"`
	MaxViol     int                       `json:"max_viol"`
	Preempt     map[string]int            `json:"preempt"` // tier -> preemption bound (0 = unbounded)
	TestTimeout int                       `json:"test_timeout_s"`
	BudgetS     map[string]int            `json:"budget_s"`     // tier -> wall-clock budget; exceeding it is inconclusive
	HB          bool                      `json:"hb"`           // run the happens-before race monitor
	RefineRaces bool                      `json:"refine_races"` // re-explore with racing accesses as scheduling points
	OnlyLabels  []string                  `json:"only_labels"`  // assert labels (prefixes) that belong to this property; others are another check's
	Kinds       []string                  `json:"kinds"`        // violation kinds that belong to this property (default: all)
}

type Violation struct {
	Kind      string            `json:"kind"`
	Msg       string            `json:"msg"`
	Func      string            `json:"func"`
	Pos       string            `json:"pos"`
	Model     map[string]uint64 `json:"inputs"`
	Sched     []string          `json:"schedule,omitempty"`
	Prefix    []int             `json:"prefix"`
	SchedPath []int             `json:"sched_choices,omitempty"`
	Visible   []string          `json:"extra_scheduling_points,omitempty"`
}

func (v *Violation) Signature(job string) string {
	return fmt.Sprintf("%s|%s|%s|%s", job, v.Kind, v.Msg, v.Func)
}

type JobResult struct {
	Spec        *JobSpec
	Tier        string
	Paths       int
	Steps       int64
	Queries     int
	CacheHits   int
	SchedSteps  int
	Unknown     int
	SolverTime  time.Duration
	Wall        time.Duration
	LoadTime    time.Duration
	Ends        map[string]int
	Covers      map[string]bool
	WantCovers  []string
	Violations  []Violation
	Entered     map[string]int
	Unmodelled  map[string]int
	RedirUsed   map[string]int
	Samples     []map[string]uint64 // witness models per cover label / path
	SampleNotes []string
	Inconcl     []string // reasons the run is inconclusive
	AssertPaths int      // paths that reached at least one Assert
	Truncated   bool
	Assumes     []string
	Overlay     map[string][]byte
	HarnessPkg  string
	RaceSites   []string
	Refined     bool
}

type loaded struct {
	prog    *ssa.Program
	pkg     *ssa.Package
	overlay map[string][]byte
}

func verifRoot() string {
	if r := os.Getenv("VERIF_ROOT"); r != "" {
		return r
	}
	exe, err := os.Executable()
	if err == nil {
		d := filepath.Dir(filepath.Dir(exe))
		if _, err := os.Stat(filepath.Join(d, "api", "verifapi.go")); err == nil {
			return d
		}
	}
	return "/verif"
}

func loadJob(spec *JobSpec, extraOverlay map[string][]byte) (*loaded, error) {
	root := verifRoot()
	api, err := os.ReadFile(filepath.Join(root, "api", "verifapi.go"))
	if err != nil {
		return nil, err
	}
	overlay := map[string][]byte{repoDir + "/internal/verifapi/api.go": api}
	pkgRel := strings.TrimPrefix(spec.Pkg, "./")
	for i, f := range spec.Files {
		src, err := os.ReadFile(filepath.Join(root, f))
		if err != nil {
			return nil, err
		}
		overlay[fmt.Sprintf("%s/%s/zz_verif_%d_%s", repoDir, pkgRel, i, filepath.Base(f))] = src
	}
	for k, v := range extraOverlay {
		overlay[k] = v
	}
	cfg := &packages.Config{Mode: packages.LoadAllSyntax, Dir: repoDir, Overlay: overlay,
		Env: append(os.Environ(), "GOFLAGS=-mod=mod", "GOPROXY=off", "GOSUMDB=off", "GOTOOLCHAIN=local")}
	pkgs, err := packages.Load(cfg, spec.Pkg)
	if err != nil {
		return nil, err
	}
	var errs []string
	packages.Visit(pkgs, nil, func(p *packages.Package) {
		for _, e := range p.Errors {
			errs = append(errs, e.Error())
		}
	})
	if len(errs) > 0 {
		if len(errs) > 8 {
			errs = errs[:8]
		}
		return nil, fmt.Errorf("package load errors (harness no longer compiles against this tree?):\n  %s", strings.Join(errs, "\n  "))
	}
	prog, spkgs := ssautil.AllPackages(pkgs, ssa.InstantiateGenerics)
	prog.Build()
	if len(spkgs) == 0 || spkgs[0] == nil {
		return nil, fmt.Errorf("no ssa package for %s", spec.Pkg)
	}
	return &loaded{prog: prog, pkg: spkgs[0], overlay: overlay}, nil
}

// staticCovers collects the constant labels of verifapi.Cover calls reachable from fn inside
// the analysed package (the vacuity guard expects every one of them to be reached).
func staticCovers(roots []*ssa.Function) []string {
	fn := roots[0]
	seen := map[*ssa.Function]bool{}
	labels := map[string]bool{}
	var visit func(f *ssa.Function)
	visit = func(f *ssa.Function) {
		if f == nil || seen[f] || len(f.Blocks) == 0 {
			return
		}
		seen[f] = true
		for _, b := range f.Blocks {
			for _, in := range b.Instrs {
				if mc, ok := in.(*ssa.MakeClosure); ok {
					visit(mc.Fn.(*ssa.Function))
				}
				ci, ok := in.(ssa.CallInstruction)
				if !ok {
					continue
				}
				cc := ci.Common()
				if cc.IsInvoke() {
					continue
				}
				callee, ok := cc.Value.(*ssa.Function)
				if !ok {
					continue
				}
				if callee.String() == apiPkg+"Cover" {
					if c, ok := cc.Args[0].(*ssa.Const); ok {
						labels[strings.Trim(c.Value.ExactString(), "\"")] = true
					}
					continue
				}
				if callee.Pkg == fn.Pkg && strings.Contains(fn.Prog.Fset.Position(callee.Pos()).Filename, "zz_verif_") {
					visit(callee)
				}
			}
		}
	}
	for _, r := range roots {
		visit(r)
	}
	var out []string
	for l := range labels {
		out = append(out, l)
	}
	sort.Strings(out)
	return out
}

type workItem struct{ prefix []int }

// runJob explores every path of the harness with a pool of workers.
// runJob explores the harness; when the happens-before monitor reports races and the job asks
// for it, a second pass re-explores with the racing instructions as scheduling points (the
// sleep-set reduction of the first pass is only sound for data-race-free code).
func runJob(spec *JobSpec, tier string, extraOverlay map[string][]byte, concrete map[string]uint64, onlyPrefix []int, visibleStr ...string) (*JobResult, error) {
	ld, err := loadJob(spec, extraOverlay)
	if err != nil {
		return nil, err
	}
	var vis map[string]bool
	if len(visibleStr) > 0 {
		vis = map[string]bool{}
		for _, s := range visibleStr {
			vis[s] = true
		}
	}
	res, err := runJobPass(ld, spec, tier, concrete, onlyPrefix, vis)
	if err != nil || concrete != nil || onlyPrefix != nil || !spec.RefineRaces || len(res.RaceSites) == 0 {
		return res, err
	}
	vis = map[string]bool{}
	for _, s := range res.RaceSites {
		vis[s] = true
	}
	fmt.Fprintf(os.Stderr, "    .. %s: %d racing access sites found; re-exploring with them as scheduling points\n", spec.Name, len(vis))
	r2, err := runJobPass(ld, spec, tier, nil, nil, vis)
	if err != nil {
		return res, nil
	}
	res.Refined = true
	res.Paths += r2.Paths
	res.Steps += r2.Steps
	res.Queries += r2.Queries
	res.SolverTime += r2.SolverTime
	res.Wall += r2.Wall
	res.SchedSteps += r2.SchedSteps
	res.AssertPaths += r2.AssertPaths
	for k, v := range r2.Ends {
		res.Ends["refined:"+k] += v
	}
	for c := range r2.Covers {
		res.Covers[c] = true
	}
	seen := map[string]bool{}
	for _, v := range res.Violations {
		seen[v.Signature(spec.Name)] = true
	}
	for _, v := range r2.Violations {
		if !seen[v.Signature(spec.Name)] {
			res.Violations = append(res.Violations, v)
		}
	}
	for _, r := range r2.Inconcl {
		res.Inconcl = append(res.Inconcl, "refinement pass: "+r)
	}
	return res, nil
}

func runJobPass(ld *loaded, spec *JobSpec, tier string, concrete map[string]uint64, onlyPrefix []int, visible map[string]bool) (*JobResult, error) {
	t0 := time.Now()
	fn := ld.pkg.Func(spec.Fn)
	if fn == nil {
		return nil, fmt.Errorf("harness function %s not found in %s", spec.Fn, spec.Pkg)
	}
	res := &JobResult{Spec: spec, Tier: tier, Ends: map[string]int{}, Covers: map[string]bool{}, Entered: map[string]int{},
		Unmodelled: map[string]int{}, RedirUsed: map[string]int{}, Overlay: ld.overlay, HarnessPkg: ld.pkg.Pkg.Path()}
	res.LoadTime = time.Since(t0)
	roots := []*ssa.Function{fn}
	for _, r := range spec.Redirects {
		rf := ld.pkg.Func(r)
		if rf == nil {
			return nil, fmt.Errorf("redirect target %s missing in harness package", r)
		}
		roots = append(roots, rf)
	}
	res.WantCovers = staticCovers(roots)
	// every redirect key must name a function that exists in the program (else the stub is dead
	// and the claim would silently change)
	if len(spec.Redirects) > 0 {
		names := map[string]bool{}
		for f := range ssautil.AllFunctions(ld.prog) {
			names[f.String()] = true
		}
		for k := range spec.Redirects {
			if !names[k] {
				return nil, fmt.Errorf("redirected callee %s no longer exists in the program", k)
			}
		}
	}
	params := map[string]int{"__tier": map[string]int{"quick": 0, "thorough": 1}[tier]}
	for k, v := range spec.Params["all"] {
		params[k] = v
	}
	for k, v := range spec.Params[tier] {
		params[k] = v
	}
	nw := spec.Workers
	if nw == 0 {
		nw = 16
	}
	if v := os.Getenv("VERIF_WORKERS"); v != "" { // fewer workers when several checks share the machine
		var n int
		fmt.Sscan(v, &n)
		if n > 0 && n < nw {
			nw = n
		}
	}
	if concrete != nil || onlyPrefix != nil {
		nw = 1
	}
	maxPaths := spec.MaxPaths
	if maxPaths == 0 {
		maxPaths = 2_000_000
	}
	maxViol := spec.MaxViol
	if maxViol == 0 {
		maxViol = 12
	}
	// primary (incremental z3) per-query cap, then the one-shot fallbacks with the long cap
	qms := spec.QueryMs[tier]
	if qms == 0 {
		qms = 4000
	}
	fbms := 60000
	if tier == "thorough" {
		fbms = 240000
	}

	var mu sync.Mutex
	cond := sync.NewCond(&mu)
	work := [][]int{{}}
	if onlyPrefix != nil {
		work = [][]int{onlyPrefix}
	}
	busy := 0
	stop := false
	sigSeen := map[string]bool{}
	t1 := time.Now()
	var wg sync.WaitGroup
	budget := time.Duration(spec.BudgetS[tier]) * time.Second
	if budget == 0 {
		budget = 40 * time.Minute
		if tier == "thorough" {
			budget = 3 * time.Hour
		}
	}
	if v := os.Getenv("VERIF_JOB_BUDGET_S"); v != "" {
		var n int
		fmt.Sscan(v, &n)
		budget = time.Duration(n) * time.Second
	}
	var firstViol time.Time
	progDone := make(chan struct{})
	go func() {
		tk := time.NewTicker(5 * time.Second)
		defer tk.Stop()
		for {
			select {
			case <-progDone:
				return
			case <-tk.C:
				mu.Lock()
				if int(time.Since(t1).Seconds())%15 < 5 {
					fmt.Fprintf(os.Stderr, "    .. %s: %ds paths=%d queue=%d busy=%d violations=%d ends=%v\n", spec.Name, int(time.Since(t1).Seconds()), res.Paths, len(work), busy, len(res.Violations), res.Ends)
				}
				// once a violation is in hand, look for further distinct ones only briefly
				if len(res.Violations) > 0 && firstViol.IsZero() {
					firstViol = time.Now()
				}
				if !firstViol.IsZero() && time.Since(firstViol) > 20*time.Second && !stop {
					stop = true
					res.Truncated = true
				}
				if time.Since(t1) > budget && !stop {
					stop = true
					res.Truncated = true
					res.Inconcl = append(res.Inconcl, fmt.Sprintf("wall-clock budget %v exhausted with %d prefixes pending", budget, len(work)))
				}
				mu.Unlock()
				cond.Broadcast()
			}
		}
	}()
	for w := 0; w < nw; w++ {
		wg.Add(1)
		go func(wid int) {
			defer wg.Done()
			var sol *Solver
			if concrete == nil {
				sol = NewSolver(qms)
				defer func() { sol.Close() }()
			}
			for {
				mu.Lock()
				for len(work) == 0 && busy > 0 && !stop {
					cond.Wait()
				}
				if stop || len(work) == 0 {
					mu.Unlock()
					cond.Broadcast()
					return
				}
				prefix := work[len(work)-1]
				work = work[:len(work)-1]
				busy++
				mu.Unlock()

				m := newMachine(ld, spec, sol, prefix, params, concrete)
				m.fallbackMs = fbms
				m.visibleStr = visible
				why := m.runPath(fn)
				if sol != nil && sol.dead {
					sol = NewSolver(qms)
				}

				mu.Lock()
				busy--
				res.Paths++
				res.Ends[endClass(why)]++
				if isInconclusive(why) {
					res.Inconcl = append(res.Inconcl, why)
				}
				res.Steps += int64(m.steps)
				res.CacheHits += m.cacheHits
				res.SchedSteps += m.schedSteps
				if m.asserts > 0 {
					res.AssertPaths++
				}
				for c := range m.covers {
					if !res.Covers[c] {
						res.Covers[c] = true
						if m.lastModel != nil && len(res.Samples) < 12 {
							res.Samples = append(res.Samples, trimModel(m.lastModel))
							res.SampleNotes = append(res.SampleNotes, "reaches cover label "+c)
						}
					}
				}
				for k, v := range m.entered {
					res.Entered[k] += v
				}
				for k, v := range m.unmodelled {
					res.Unmodelled[k] += v
				}
				for k, v := range m.redirUsed {
					res.RedirUsed[k] += v
				}
				for _, p := range m.raceSites {
					s := m.prog.Fset.Position(p).String()
					dup := false
					for _, o := range res.RaceSites {
						if o == s {
							dup = true
						}
					}
					if !dup {
						res.RaceSites = append(res.RaceSites, s)
					}
				}
				for _, v := range m.viol {
					if visible != nil {
						for s := range visible {
							v.Visible = append(v.Visible, s)
						}
						sort.Strings(v.Visible)
					}
					if !spec.owns(&v) {
						continue
					}
					sig := v.Signature(spec.Name)
					if !sigSeen[sig] {
						sigSeen[sig] = true
						res.Violations = append(res.Violations, v)
					}
				}
				if onlyPrefix == nil {
					work = append(work, m.alts...)
				}
				if res.Paths >= maxPaths {
					res.Truncated = len(work) > 0
					stop = true
				}
				if len(res.Violations) >= maxViol {
					stop = true
					res.Truncated = len(work) > 0
				}
				mu.Unlock()
				cond.Broadcast()
			}
		}(w)
	}
	wg.Wait()
	close(progDone)
	res.Wall = time.Since(t1)
	solverStatsMu.Lock()
	res.Queries = int(solverQueries)
	res.SolverTime = solverTime
	res.Unknown = int(solverUnknown)
	solverQueries, solverTime, solverUnknown = 0, 0, 0
	solverStatsMu.Unlock()
	if res.Truncated && len(res.Violations) == 0 && len(res.Inconcl) == 0 {
		res.Inconcl = append(res.Inconcl, fmt.Sprintf("path budget %d exhausted with work pending", maxPaths))
	}
	if concrete == nil && onlyPrefix == nil && len(res.Violations) == 0 {
		opt := map[string]bool{}
		for _, c := range spec.OptCovers {
			opt[c] = true
		}
		for _, c := range res.WantCovers {
			if !res.Covers[c] && !opt[c] {
				res.Inconcl = append(res.Inconcl, "vacuous: cover label never reached: "+c)
			}
		}
	}
	// Assume texts, verbatim from the harness sources
	for name, src := range ld.overlay {
		if !strings.Contains(name, "zz_verif_") {
			continue
		}
		for _, line := range strings.Split(string(src), "\n") {
			l := strings.TrimSpace(line)
			if strings.HasPrefix(l, "verifapi.Assume(") {
				res.Assumes = append(res.Assumes, filepath.Base(name)+": "+l)
			}
		}
	}
	sort.Strings(res.Assumes)
	return res, nil
}

func trimModel(m map[string]uint64) map[string]uint64 {
	out := map[string]uint64{}
	n := 0
	keys := make([]string, 0, len(m))
	for k := range m {
		keys = append(keys, k)
	}
	sort.Strings(keys)
	for _, k := range keys {
		if n >= 40 {
			break
		}
		out[strings.Trim(k, "|")] = m[k]
		n++
	}
	return out
}

func endClass(why string) string {
	if i := strings.Index(why, ":"); i > 0 {
		return why[:i]
	}
	return why
}

func isInconclusive(why string) bool {
	return strings.HasPrefix(why, "unwind") || strings.HasPrefix(why, "solver unknown") || strings.HasPrefix(why, "step limit") ||
		strings.HasPrefix(why, "engine") || strings.HasPrefix(why, "poisoned")
}

func newMachine(ld *loaded, spec *JobSpec, sol *Solver, prefix []int, params map[string]int, concrete map[string]uint64) *Machine {
	m := &Machine{prog: ld.prog, sol: sol, prefix: prefix, globals: map[*ssa.Global]*Value{}, initing: map[*ssa.Package]bool{},
		varSeen: map[string]bool{}, ndCount: map[string]int{}, covers: map[string]bool{}, harnessPkg: ld.pkg,
		sleep: map[string]tkey{}, useSleep: !spec.NoSleep, onceDone: map[*Value]bool{}, atomicVals: map[*Value]Value{},
		entered: map[string]int{}, unmodelled: map[string]int{}, redirUsed: map[string]int{}, redirects: spec.Redirects,
		params: params, concrete: concrete, spec: spec, counters: map[string]int{}, locked: map[*Value]bool{},
		rlocked: map[*Value]int{}, wgCount: map[*Value]int{}}
	m.loopBound = spec.LoopBound
	if m.loopBound == 0 {
		m.loopBound = 5_000_000
	}
	m.preemptBound = spec.Preempt[tierOf(params)]
	m.schedBound = spec.SchedBound
	if m.schedBound == 0 {
		m.schedBound = 2000
	}
	return m
}

// runPath executes one path; returns why it ended.
func (m *Machine) runPath(fn *ssa.Function) (why string) {
	if m.sol != nil {
		m.sol.Push()
		defer func() {
			if !m.sol.dead {
				m.sol.Pop()
			}
		}()
	}
	why = "returned"
	defer func() {
		if r := recover(); r != nil {
			switch x := r.(type) {
			case pathEnd:
				why = x.why
			case solverDied:
				why = "solver unknown: solver process died"
			default:
				why = fmt.Sprintf("engine crash: %v @ %s\n%s", r, m.prog.Fset.Position(m.lastPos), trimStack(string(debug.Stack())))
			}
		}
	}()
	if m.spec.Conc {
		why = m.runConcurrent(fn)
	} else {
		m.cur = &G{}
		m.call(fn, nil, false)
	}
	return why
}

func trimStack(s string) string {
	lines := strings.Split(s, "\n")
	if len(lines) > 40 {
		lines = lines[:40]
	}
	return strings.Join(lines, "\n")
}

func posStr(fset *token.FileSet, p token.Pos) string {
	if !p.IsValid() {
		return "?"
	}
	ps := fset.Position(p)
	return fmt.Sprintf("%s:%d", strings.TrimPrefix(ps.Filename, repoDir+"/"), ps.Line)
}

// owns: several properties can share one exploration (C02/C04); each check reports only the
// violations that belong to its property.
func (s *JobSpec) owns(v *Violation) bool {
	if len(s.Kinds) > 0 {
		ok := false
		for _, k := range s.Kinds {
			if k == v.Kind {
				ok = true
			}
		}
		if !ok {
			return false
		}
	}
	if v.Kind == "assert" && len(s.OnlyLabels) > 0 {
		for _, p := range s.OnlyLabels {
			if strings.HasPrefix(v.Msg, p) {
				return true
			}
		}
		return false
	}
	return true
}

func tierOf(params map[string]int) string {
	if params["__tier"] == 1 {
		return "thorough"
	}
	return "quick"
}
