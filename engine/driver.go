package main

import (
	"bufio"
	"bytes"
	"encoding/json"
	"fmt"
	"os"
	"os/exec"
	"path/filepath"
	"sort"
	"strconv"
	"strings"
	"time"
)

// CheckSpec is /verif/checks/<id>.json.
type CheckSpec struct {
	Property    string     `json:"property"`
	Jobs        []*JobSpec `json:"jobs"`
	Regex       *RegexSpec `json:"regex"` // C07 only
	Trusted     []string   `json:"trusted_base"`
	Assumptions []string   `json:"assumptions"`
	Explanation string     `json:"explanation"`
}

type KnownFinding struct {
	Property  string `json:"property"`
	Signature string `json:"signature"`
	Status    string `json:"status"` // open | fixed
	Commit    string `json:"commit,omitempty"`
	What      string `json:"what"`
}

func loadKnown(root string) []KnownFinding {
	var out []KnownFinding
	f, err := os.Open(filepath.Join(root, "known_findings.jsonl"))
	if err != nil {
		return nil
	}
	defer f.Close()
	sc := bufio.NewScanner(f)
	sc.Buffer(make([]byte, 1<<20), 1<<20)
	for sc.Scan() {
		l := strings.TrimSpace(sc.Text())
		if l == "" || strings.HasPrefix(l, "#") || strings.HasPrefix(l, "fixed:") {
			continue
		}
		var k KnownFinding
		if json.Unmarshal([]byte(l), &k) == nil {
			out = append(out, k)
		}
	}
	return out
}

type cexFile struct {
	Property  string            `json:"property"`
	Job       string            `json:"job"`
	Harness   string            `json:"harness"`
	Package   string            `json:"package"`
	Files     []string          `json:"harness_files"`
	Tier      string            `json:"tier"`
	Params    map[string]int    `json:"params"`
	Inputs    map[string]uint64 `json:"inputs"`
	Schedule  []string          `json:"schedule,omitempty"`
	SchedPath []int             `json:"sched_choices,omitempty"`
	Visible   []string          `json:"extra_scheduling_points,omitempty"`
	Prefix    []int             `json:"prefix"`
	Violation struct {
		Kind      string `json:"kind"`
		Message   string `json:"message"`
		Func      string `json:"func"`
		Pos       string `json:"pos"`
		Signature string `json:"signature"`
	} `json:"violation"`
	Replay struct {
		L1  string `json:"l1"`
		L2  string `json:"l2"`
		Cmd string `json:"cmd"`
		Out string `json:"native_output,omitempty"`
	} `json:"replay"`
}

func tierParams(spec *JobSpec, tier string) map[string]int {
	params := map[string]int{}
	for k, v := range spec.Params["all"] {
		params[k] = v
	}
	for k, v := range spec.Params[tier] {
		params[k] = v
	}
	return params
}

func jobInTier(j *JobSpec, tier string) bool {
	if len(j.Tiers) == 0 {
		return true
	}
	for _, t := range j.Tiers {
		if t == tier {
			return true
		}
	}
	return false
}

func cmdCheck(args []string) int {
	root := verifRoot()
	if len(args) < 1 {
		fmt.Fprintln(os.Stderr, "check: need a property id")
		return 2
	}
	id := args[0]
	tier := os.Getenv("VERIF_TIER")
	onlyJob := ""
	for i := 1; i < len(args); i++ {
		switch args[i] {
		case "--tier":
			i++
			tier = args[i]
		case "--job":
			i++
			onlyJob = args[i]
		}
	}
	if tier == "" {
		tier = "quick"
	}
	seed, _ := strconv.Atoi(os.Getenv("VERIF_SEED"))
	b, err := os.ReadFile(filepath.Join(root, "checks", id+".json"))
	if err != nil {
		fmt.Fprintln(os.Stderr, "check:", err)
		return 2
	}
	var cs CheckSpec
	dec := json.NewDecoder(bytes.NewReader(b))
	dec.DisallowUnknownFields()
	if err := dec.Decode(&cs); err != nil {
		fmt.Fprintln(os.Stderr, "check: bad spec:", err)
		return 2
	}
	t0 := time.Now()
	known := loadKnown(root)
	os.MkdirAll(filepath.Join(root, "evidence", "cex"), 0755)
	// remove stale counterexamples of this property
	if old, _ := filepath.Glob(filepath.Join(root, "evidence", "cex", id+"-*.json")); onlyJob == "" {
		for _, f := range old {
			os.Remove(f)
		}
	}

	var results []*JobResult
	var inconcl []string
	nViol, nKnown := 0, 0
	var lines []string
	replayed := 0
	var regexRes *RegexResult
	for _, j := range cs.Jobs {
		if !jobInTier(j, tier) || (onlyJob != "" && j.Name != onlyJob) {
			continue
		}
		fmt.Printf("[%s] job %s: %s %s ...\n", id, j.Name, j.Pkg, j.Fn)
		res, err := runJob(j, tier, nil, nil, nil)
		if err != nil {
			inconcl = append(inconcl, fmt.Sprintf("job %s: %v", j.Name, err))
			fmt.Printf("[%s] job %s: INCONCLUSIVE: %v\n", id, j.Name, err)
			continue
		}
		results = append(results, res)
		fmt.Printf("[%s] job %s: paths=%d steps=%d queries=%d solver=%.1fs unknown=%d wall=%.1fs (load %.1fs) ends=%v covers=%d/%d violations=%d\n",
			id, j.Name, res.Paths, res.Steps, res.Queries, res.SolverTime.Seconds(), res.Unknown, res.Wall.Seconds(), res.LoadTime.Seconds(),
			res.Ends, len(res.Covers), len(res.WantCovers), len(res.Violations))
		for _, r := range dedupeFirstLine(res.Inconcl) {
			inconcl = append(inconcl, fmt.Sprintf("job %s: %s", j.Name, firstLine(r)))
			fmt.Printf("[%s] job %s: INCONCLUSIVE: %s\n", id, j.Name, r)
		}
		for vi := range res.Violations {
			v := &res.Violations[vi]
			sig := v.Signature(j.Name)
			cex := cexFile{Property: id, Job: j.Name, Harness: j.Fn, Package: j.Pkg, Files: j.Files, Tier: tier,
				Params: tierParams(j, tier), Inputs: v.Model, Schedule: v.Sched, Prefix: v.Prefix, SchedPath: v.SchedPath, Visible: v.Visible}
			cex.Violation.Kind, cex.Violation.Message, cex.Violation.Func, cex.Violation.Pos, cex.Violation.Signature = v.Kind, v.Msg, v.Func, v.Pos, sig
			path := filepath.Join(root, "evidence", "cex", fmt.Sprintf("%s-%s-%d.json", id, j.Name, vi))
			writeJSON(path, &cex)
			confirmed := replayCex(&cex, j, path)
			writeJSON(path, &cex)
			replayed++
			if !confirmed {
				inconcl = append(inconcl, fmt.Sprintf("job %s: SPURIOUS counterexample (did not replay): %s", j.Name, sig))
				fmt.Printf("SPURIOUS property=%s signature=%q l1=%s l2=%s file=%s\n", id, sig, cex.Replay.L1, cex.Replay.L2, path)
				continue
			}
			isKnown := false
			for _, k := range known {
				if k.Property == id && k.Status == "open" && k.Signature == sig {
					isKnown = true
					lines = append(lines, fmt.Sprintf("KNOWN-FINDING: property=%s %s [signature %s]", id, k.What, sig))
				}
			}
			if isKnown {
				nKnown++
				continue
			}
			nViol++
			lines = append(lines, fmt.Sprintf("VIOLATION property=%s replay=%s", id, path))
			lines = append(lines, fmt.Sprintf("  %s: %s in %s at %s (replay l1=%s l2=%s)", v.Kind, v.Msg, v.Func, v.Pos, cex.Replay.L1, cex.Replay.L2))
		}
	}
	if cs.Regex != nil && onlyJob == "" {
		regexRes = runRegex(cs.Regex, tier, id)
		for _, r := range regexRes.Inconcl {
			inconcl = append(inconcl, "regex: "+r)
		}
		for _, w := range regexRes.Violations {
			sig := "regex|" + w.Kind + "|" + w.Family
			path := filepath.Join(root, "evidence", "cex", fmt.Sprintf("%s-regex-%s.json", id, sanitize(w.Family)))
			writeJSON(path, w)
			isKnown := false
			for _, k := range known {
				if k.Property == id && k.Status == "open" && k.Signature == sig {
					isKnown = true
					lines = append(lines, fmt.Sprintf("KNOWN-FINDING: property=%s %s [signature %s]", id, k.What, sig))
				}
			}
			if isKnown {
				nKnown++
				continue
			}
			nViol++
			lines = append(lines, fmt.Sprintf("VIOLATION property=%s replay=%s", id, path))
			lines = append(lines, fmt.Sprintf("  %s: input %q -> output %q", w.Kind, w.Input, w.Output))
		}
	}
	wall := time.Since(t0)
	writeEvidence(root, id, tier, seed, &cs, results, regexRes, inconcl, nViol, nKnown, replayed, wall)
	for _, l := range lines {
		fmt.Println(l)
	}
	switch {
	case nViol > 0:
		fmt.Printf("[%s] RESULT: violation (%d new, %d known) in %.1fs\n", id, nViol, nKnown, wall.Seconds())
		return 1
	case len(inconcl) > 0:
		fmt.Printf("[%s] RESULT: inconclusive (%d reasons) in %.1fs\n", id, len(inconcl), wall.Seconds())
		for _, r := range inconcl {
			fmt.Println("   -", r)
		}
		return 2
	}
	fmt.Printf("[%s] RESULT: held on everything explored (tier %s, %d known findings) in %.1fs\n", id, tier, nKnown, wall.Seconds())
	return 0
}

func sanitize(s string) string {
	var sb strings.Builder
	for _, c := range s {
		if c >= 'a' && c <= 'z' || c >= 'A' && c <= 'Z' || c >= '0' && c <= '9' {
			sb.WriteRune(c)
		} else {
			sb.WriteByte('_')
		}
	}
	return sb.String()
}

func firstLine(s string) string {
	if i := strings.IndexByte(s, '\n'); i > 0 {
		return s[:i]
	}
	return s
}

func dedupeFirstLine(xs []string) []string {
	seen := map[string]bool{}
	var out []string
	for _, x := range xs {
		k := firstLine(x)
		if !seen[k] {
			seen[k] = true
			out = append(out, x)
		}
	}
	return out
}

func dedupe(xs []string) []string {
	seen := map[string]bool{}
	var out []string
	for _, x := range xs {
		if !seen[x] {
			seen[x] = true
			out = append(out, x)
		}
	}
	return out
}

func writeJSON(path string, v interface{}) {
	b, _ := json.MarshalIndent(v, "", " ")
	os.WriteFile(path, append(b, '\n'), 0644)
}

// replayCex confirms a counterexample: L1 = the interpreter in concrete mode (no solver) must
// reach the same violation; L2 = the natively compiled harness must reach it too (sequential
// harnesses whose environment is executable natively).
func replayCex(cex *cexFile, j *JobSpec, path string) bool {
	sigWant := cex.Violation.Signature
	// L1
	if cex.Inputs == nil && !j.Conc {
		cex.Replay.L1 = "no model"
	} else {
		inputs := cex.Inputs
		if inputs == nil {
			inputs = map[string]uint64{}
		}
		sp := cex.SchedPath
		if sp == nil {
			sp = []int{}
		}
		r, err := runJobConcrete(j, cex.Tier, inputs, sp, cex.Visible...)
		switch {
		case err != nil:
			cex.Replay.L1 = "error: " + err.Error()
		default:
			cex.Replay.L1 = "not reproduced"
			for _, v := range r.Violations {
				if v.Signature(j.Name) == sigWant {
					cex.Replay.L1 = "confirmed"
				}
			}
			if cex.Replay.L1 != "confirmed" {
				cex.Replay.L1 += fmt.Sprintf(" (ends %v)", r.Ends)
			}
		}
	}
	if cex.Replay.L1 != "confirmed" {
		return false
	}
	if j.Conc || j.Replay == "interp" {
		cex.Replay.L2 = "interp-only"
		cex.Replay.Cmd = "gosmt replay " + path
		return true
	}
	out, outcome, cmd := nativeReplay(j, path, cex.Tier)
	cex.Replay.Cmd = cmd
	cex.Replay.Out = outcome
	ok := false
	switch cex.Violation.Kind {
	case "assert":
		ok = outcome == "assert|"+cex.Violation.Message
	case "panic":
		ok = strings.HasPrefix(outcome, "panic|") || strings.HasPrefix(outcome, "exit|")
	case "deadlock":
		ok = outcome == "timeout"
	}
	if ok {
		cex.Replay.L2 = "confirmed"
	} else {
		cex.Replay.L2 = "not reproduced: " + outcome
		if len(out) > 1500 {
			out = out[len(out)-1500:]
		}
		cex.Replay.Out = outcome + "\n" + out
	}
	return ok
}

func runJobConcrete(j *JobSpec, tier string, inputs map[string]uint64, prefix []int, visible ...string) (*JobResult, error) {
	return runJob(j, tier, nil, inputs, prefix, visible...)
}

const replayTestTmpl = `package %s

import (
	"fmt"
	"os"
	"testing"
	"time"

	"` + modPath + `/internal/verifapi"
)

func TestVerifReplay(t *testing.T) {
	done := make(chan string, 1)
	go func() {
		defer func() {
			if r := recover(); r != nil {
				switch x := r.(type) {
				case verifapi.AssertFailed:
					done <- "assert|" + x.Label
				case verifapi.AssumeFailed:
					done <- "diverged"
				default:
					done <- fmt.Sprintf("panic|%%v", r)
				}
			}
		}()
		%s()
		done <- "returned"
	}()
	select {
	case o := <-done:
		fmt.Println("VERIF-REPLAY-OUTCOME: " + o)
	case <-time.After(%d * time.Second):
		fmt.Println("VERIF-REPLAY-OUTCOME: timeout")
	}
	os.Stdout.Sync()
}
`

// nativeReplay runs the harness natively under `go test -overlay` with the counterexample.
func nativeReplay(j *JobSpec, cexPath, tier string) (output, outcome, cmdline string) {
	root := verifRoot()
	if abs, err := filepath.Abs(cexPath); err == nil {
		cexPath = abs
	}
	tmp, err := os.MkdirTemp("", "verif-replay-")
	if err != nil {
		return err.Error(), "error", ""
	}
	defer os.RemoveAll(tmp)
	pkgRel := strings.TrimPrefix(j.Pkg, "./")
	repl := map[string]string{}
	cp := func(virtual, real string) {
		repl[virtual] = real
	}
	cp(repoDir+"/internal/verifapi/api.go", filepath.Join(root, "api", "verifapi.go"))
	for i, f := range j.Files {
		cp(fmt.Sprintf("%s/%s/zz_verif_%d_%s", repoDir, pkgRel, i, filepath.Base(f)), filepath.Join(root, f))
	}
	pkgName, err := packageName(filepath.Join(root, j.Files[0]))
	if err != nil {
		return err.Error(), "error", ""
	}
	to := j.TestTimeout
	if to == 0 {
		to = 20
	}
	testSrc := fmt.Sprintf(replayTestTmpl, pkgName, j.Fn, to)
	tf := filepath.Join(tmp, "replay_test.go")
	os.WriteFile(tf, []byte(testSrc), 0644)
	cp(fmt.Sprintf("%s/%s/zz_verif_replay_test.go", repoDir, pkgRel), tf)
	ovb, _ := json.Marshal(map[string]interface{}{"Replace": repl})
	ovf := filepath.Join(tmp, "overlay.json")
	os.WriteFile(ovf, ovb, 0644)
	args := []string{"test", "-ldflags=-checklinkname=0", "-vet=off", "-count=1", "-v", "-run", "^TestVerifReplay$", "-overlay", ovf,
		"-timeout", fmt.Sprintf("%ds", to+60), j.Pkg}
	cmd := exec.Command("go", args...)
	cmd.Dir = repoDir
	cmd.Env = append(os.Environ(), "GOFLAGS=-mod=mod", "GOPROXY=off", "GOSUMDB=off", "GOTOOLCHAIN=local", "VERIF_REPLAY="+cexPath)
	outb, _ := cmd.CombinedOutput()
	output = string(outb)
	outcome = "no outcome line"
	for _, l := range strings.Split(output, "\n") {
		if i := strings.Index(l, "VERIF-REPLAY-OUTCOME: "); i >= 0 {
			outcome = strings.TrimSpace(l[i+len("VERIF-REPLAY-OUTCOME: "):])
		}
	}
	if outcome == "no outcome line" && (strings.Contains(output, "exit status") || strings.Contains(output, "FAIL")) {
		if strings.Contains(output, "panic:") || strings.Contains(output, "fatal error:") {
			outcome = "panic|" + firstPanicLine(output)
		} else if strings.Contains(output, "[build failed]") || strings.Contains(output, "[setup failed]") {
			outcome = "build failed"
		} else {
			outcome = "exit|process exited"
		}
	}
	cmdline = "cd /repo && VERIF_REPLAY=" + cexPath + " go " + strings.Join(args, " ") + "   # overlay regenerated by: gosmt replay " + cexPath
	return
}

func firstPanicLine(out string) string {
	for _, l := range strings.Split(out, "\n") {
		if strings.HasPrefix(l, "panic:") || strings.HasPrefix(l, "fatal error:") {
			return l
		}
	}
	return ""
}

func packageName(file string) (string, error) {
	b, err := os.ReadFile(file)
	if err != nil {
		return "", err
	}
	for _, l := range strings.Split(string(b), "\n") {
		l = strings.TrimSpace(l)
		if strings.HasPrefix(l, "package ") {
			return strings.Fields(l)[1], nil
		}
	}
	return "", fmt.Errorf("no package clause in %s", file)
}

// cmdReplay re-runs L1 and L2 for a stored counterexample.
func cmdReplay(args []string) int {
	if len(args) < 1 {
		fmt.Fprintln(os.Stderr, "replay: need a counterexample file")
		return 2
	}
	b, err := os.ReadFile(args[0])
	if err != nil {
		fmt.Fprintln(os.Stderr, err)
		return 2
	}
	var cex cexFile
	if err := json.Unmarshal(b, &cex); err != nil {
		fmt.Fprintln(os.Stderr, err)
		return 2
	}
	root := verifRoot()
	sb, err := os.ReadFile(filepath.Join(root, "checks", cex.Property+".json"))
	if err != nil {
		fmt.Fprintln(os.Stderr, err)
		return 2
	}
	var cs CheckSpec
	json.Unmarshal(sb, &cs)
	for _, j := range cs.Jobs {
		if j.Name == cex.Job {
			ok := replayCex(&cex, j, args[0])
			fmt.Printf("replay %s: l1=%s l2=%s\n", cex.Violation.Signature, cex.Replay.L1, cex.Replay.L2)
			if cex.Replay.Out != "" {
				fmt.Println(cex.Replay.Out)
			}
			for _, s := range cex.Schedule {
				fmt.Println("   ", s)
			}
			if ok {
				fmt.Printf("VIOLATION property=%s replay=%s\n", cex.Property, args[0])
				return 1
			}
			return 0
		}
	}
	fmt.Fprintln(os.Stderr, "job not found:", cex.Job)
	return 2
}

// ---------------- evidence ----------------

func writeEvidence(root, id, tier string, seed int, cs *CheckSpec, results []*JobResult, rx *RegexResult, inconcl []string, nViol, nKnown, replayed int, wall time.Duration) {
	type jobEv struct {
		Name        string            `json:"name"`
		Package     string            `json:"package"`
		Harness     string            `json:"harness"`
		Params      map[string]int    `json:"bounds_params"`
		Bounds      string            `json:"bounds,omitempty"`
		Concurrent  bool              `json:"concurrent"`
		Paths       int               `json:"feasible_paths"`
		AssertPaths int               `json:"paths_reaching_an_assert"`
		Steps       int64             `json:"ssa_instructions_executed"`
		SchedSteps  int               `json:"schedule_steps,omitempty"`
		Queries     int               `json:"solver_queries"`
		CacheHits   int               `json:"model_cache_hits"`
		SolverS     float64           `json:"solver_time_s"`
		Unknown     int               `json:"solver_unknowns"`
		WallS       float64           `json:"wall_s"`
		Ends        map[string]int    `json:"path_ends"`
		Covers      []string          `json:"cover_labels_reached"`
		Missing     []string          `json:"cover_labels_missing,omitempty"`
		Functions   []string          `json:"functions_encoded"`
		Redirects   map[string]string `json:"redirect_stubs,omitempty"`
		RedirNever  []string          `json:"redirect_stubs_never_called,omitempty"`
		RedirUsed   map[string]int    `json:"redirect_stub_calls,omitempty"`
		Unmodelled  map[string]int    `json:"unmodelled_calls_havoced,omitempty"`
		Assumes     []string          `json:"assumes"`
		Stubs       []string          `json:"stub_contracts,omitempty"`
		Outside     []string          `json:"outside_the_claim,omitempty"`
		Violations  []string          `json:"violation_signatures,omitempty"`
	}
	var jobs []jobEv
	var states, transitions int64
	queries, assertPaths := 0, 0
	var samples []interface{}
	var solverS float64
	funcs := map[string]bool{}
	for _, r := range results {
		je := jobEv{Name: r.Spec.Name, Package: r.Spec.Pkg, Harness: r.Spec.Fn, Params: tierParams(r.Spec, tier), Bounds: r.Spec.Bounds[tier],
			Concurrent: r.Spec.Conc, Paths: r.Paths, AssertPaths: r.AssertPaths, Steps: r.Steps, SchedSteps: r.SchedSteps, Queries: r.Queries,
			CacheHits: r.CacheHits, SolverS: r.SolverTime.Seconds(), Unknown: r.Unknown, WallS: r.Wall.Seconds(), Ends: r.Ends,
			Redirects: r.Spec.Redirects, RedirUsed: r.RedirUsed, Unmodelled: r.Unmodelled, Assumes: r.Assumes, Stubs: r.Spec.Stubs, Outside: r.Spec.Outside}
		if je.Bounds == "" {
			je.Bounds = r.Spec.Bounds["all"]
		}
		for callee := range r.Spec.Redirects {
			if r.RedirUsed[callee] == 0 {
				je.RedirNever = append(je.RedirNever, callee)
			}
		}
		sort.Strings(je.RedirNever)
		for c := range r.Covers {
			je.Covers = append(je.Covers, c)
		}
		sort.Strings(je.Covers)
		for _, c := range r.WantCovers {
			if !r.Covers[c] {
				je.Missing = append(je.Missing, c)
			}
		}
		for f := range r.Entered {
			je.Functions = append(je.Functions, strings.ReplaceAll(f, modPath+"/", ""))
			funcs[f] = true
		}
		sort.Strings(je.Functions)
		for _, v := range r.Violations {
			je.Violations = append(je.Violations, v.Signature(r.Spec.Name))
		}
		jobs = append(jobs, je)
		states += int64(r.Paths)
		transitions += r.Steps
		queries += r.Queries
		assertPaths += r.AssertPaths
		solverS += r.SolverTime.Seconds()
		for i, s := range r.Samples {
			if len(samples) < 24 {
				samples = append(samples, map[string]interface{}{"job": r.Spec.Name, "note": r.SampleNotes[i], "inputs": s})
			}
		}
	}
	cov := map[string]interface{}{
		"states":                        states,
		"transitions":                   transitions,
		"traces_validated_against_impl": replayed,
		"evaluations":                   queries,
		"distinct_nontrivial":           assertPaths,
		"rule": "evaluations = SMT queries discharged; states = feasible paths of the symbolic execution (each a distinct decision prefix); " +
			"distinct_nontrivial = distinct feasible paths that reached at least one Assert; transitions = SSA instructions executed",
		"jobs":             jobs,
		"solver":           solverName(),
		"solver_time_s":    solverS,
		"functions_total":  len(funcs),
		"inconclusive":     inconcl,
		"known_findings":   nKnown,
		"exhaustive":       len(inconcl) == 0,
		"bounds_statement": "every result is bounded: see bounds_params/bounds per job and DESIGN.md; nothing is claimed outside them",
	}
	if rx != nil {
		cov["regex"] = rx
		cov["evaluations"] = queries + rx.Queries
		cov["states"] = states + int64(rx.Queries)
		cov["transitions"] = transitions + int64(rx.Queries)
		cov["distinct_nontrivial"] = assertPaths + rx.Discharged
		for _, s := range rx.Samples {
			if len(samples) < 40 {
				samples = append(samples, s)
			}
		}
	}
	if len(samples) == 0 {
		samples = append(samples, map[string]interface{}{"note": "no witness model was produced on this run"})
	}
	cov["samples"] = samples
	if cov["states"].(int64) < 1 {
		cov["states"] = int64(1)
	}
	if cov["transitions"].(int64) < 1 {
		cov["transitions"] = int64(1)
	}
	ev := map[string]interface{}{
		"property_id": id,
		"tier":        tier,
		"seed":        seed,
		"level":       "model_checking",
		"coverage":    cov,
		"assumptions": append(append([]string{}, cs.Assumptions...), cs.Trusted...),
		"wall_s":      wall.Seconds(),
		"violations":  nViol,
	}
	os.MkdirAll(filepath.Join(root, "evidence"), 0755)
	writeJSON(filepath.Join(root, "evidence", id+".json"), ev)
}

func solverName() string {
	bin := os.Getenv("VERIF_SOLVER")
	if bin == "" {
		bin = "z3-new"
	}
	out, err := exec.Command(bin, "--version").Output()
	if err != nil {
		return bin
	}
	return strings.TrimSpace(string(out))
}
