package main

import (
	"fmt"
	"go/types"
	"strings"

	"golang.org/x/tools/go/ssa"
)

func (m *Machine) doCall(fr *Frame, cc *ssa.CallCommon, site ssa.Value) Value {
	var args []Value
	for _, a := range cc.Args {
		args = append(args, m.get(fr, a))
	}
	fv := m.get(fr, cc.Value)
	return m.callValue(fv, cc, args)
}

func (m *Machine) callValue(fv Value, cc *ssa.CallCommon, args []Value) Value {
	if cc.IsInvoke() {
		i, ok := fv.(Iface)
		if !ok || i.t == nil {
			m.require(False, "panic", "nil interface method call "+cc.Method.Name())
		}
		if op, ok := i.v.(*Opaque); ok {
			if strings.HasPrefix(op.tag, "error:") && cc.Method.Name() == "Error" {
				return strLit(strings.TrimPrefix(op.tag, "error:")) // errors.New / fmt.Errorf: the (format) text
			}
			return m.havoc(cc.Signature().Results(), op.tag+"."+cc.Method.Name())
		}
		fn := m.prog.LookupMethod(i.t, cc.Method.Pkg(), cc.Method.Name())
		if fn == nil {
			panic("no method " + cc.Method.Name() + " on " + i.t.String())
		}
		return m.callFn(fn, append([]Value{i.v}, args...))
	}
	switch f := fv.(type) {
	case *ssa.Builtin:
		return m.builtin(f.Name(), args, cc)
	case Closure:
		fn := f.fn.(*ssa.Function)
		return m.callFn(fn, args, f.free...)
	case NilPtr:
		m.require(False, "panic", "call of nil func")
	}
	panic(fmt.Sprintf("callValue %T", fv))
}

// methods of these third-party types are never executed (stubbed or havoc'd); their contract
// is that a pointer-receiver method dereferences its receiver, so calling one on a nil pointer
// is a nil-dereference panic
var nilRecvPkgs = []string{"(*github.com/pion/", "(*github.com/gorilla/", "(*github.com/prometheus/"}

func (m *Machine) callFn(fn *ssa.Function, args []Value, free ...Value) Value {
	name := fn.String()
	if len(args) > 0 && fn.Signature.Recv() != nil {
		if _, isNil := args[0].(NilPtr); isNil {
			for _, p := range nilRecvPkgs {
				if strings.HasPrefix(name, p) {
					m.require(False, "panic", "nil pointer dereference: method "+fn.Name()+" called on a nil "+fn.Signature.Recv().Type().String())
				}
			}
		}
	}
	if r, ok := m.redirect(name, args); ok {
		return r
	}
	if fn.Name() == "init" && fn.Synthetic != "" {
		return nil // dependency package initialisers are run lazily, per package, on first global access
	}
	if r, ok := m.intrinsic(name, fn, args); ok {
		return r
	}
	if len(fn.Blocks) == 0 {
		m.unmodelled[name]++
		return m.havoc(fn.Signature.Results(), name)
	}
	if !m.enterListed(name) {
		for _, s := range append(stopPrefixes, m.spec.Havoc...) {
			if strings.HasPrefix(name, s) || strings.HasPrefix(name, "(*"+s) || strings.HasPrefix(name, "("+s) {
				m.unmodelled[name]++
				return m.havoc(fn.Signature.Results(), name)
			}
		}
	}
	m.entered[name]++
	return m.call(fn, args, false, free...)
}

func (m *Machine) enterListed(name string) bool {
	for _, s := range m.spec.Enter {
		if strings.HasPrefix(name, s) || strings.HasPrefix(name, "(*"+s) || strings.HasPrefix(name, "("+s) {
			return true
		}
	}
	return false
}

var stopPrefixes = []string{"github.com/prometheus", "github.com/pion", "fmt.", "log.", "encoding/json.", "reflect.", "net/http.", "net/url.", "regexp.", "os.", "syscall.", "runtime."}

func (m *Machine) havoc(res *types.Tuple, tag string) Value {
	// (value..., error) convention: the error is decided first; on error the other results
	// are zero values, otherwise pointers are fresh non-nil objects
	failed := false
	n := res.Len()
	if n >= 2 && res.At(n-1).Type().String() == "error" {
		failed = !m.branch(m.newVar(tag+".err.nil", 0))
	}
	mk := func(t types.Type, last bool) Value {
		switch u := t.Underlying().(type) {
		case *types.Basic:
			if failed {
				return m.zero(t)
			}
			if u.Kind() == types.String {
				return m.symString(tag, 8)
			}
			if isFloat(t) {
				return m.zero(t)
			}
			w := width(t)
			if w == 0 {
				return m.newVar(tag, 0)
			}
			if w > 0 {
				return m.newVar(tag, w)
			}
		case *types.Interface:
			if t.String() == "error" {
				if n >= 2 && last {
					if !failed {
						return Iface{}
					}
				} else if m.branch(m.newVar(tag+".nil", 0)) {
					return Iface{}
				}
				m.opaqueSeq++
				return Iface{t: t, v: &Opaque{tag: "error:" + tag, id: m.opaqueSeq}}
			}
			if failed {
				return Iface{}
			}
			m.opaqueSeq++
			return Iface{t: t, v: &Opaque{tag: tag, id: m.opaqueSeq}}
		case *types.Pointer:
			if failed {
				return NilPtr{}
			}
			if _, isStruct := u.Elem().Underlying().(*types.Struct); isStruct {
				v := m.zero(u.Elem())
				return SlotPtr{&v}
			}
		}
		return m.zero(t)
	}
	switch n {
	case 0:
		return nil
	case 1:
		return mk(res.At(0).Type(), true)
	}
	tp := make(Tuple, n)
	for i := range tp {
		tp[i] = mk(res.At(i).Type(), i == n-1)
	}
	return tp
}

func (m *Machine) symBytes(name string, max int) Bytes {
	st := newFlat(max)
	k := m.ndCount[name+".len"]
	for i := 0; i < max; i++ {
		st.flat[i] = m.newVarNamed(fmt.Sprintf("%s#%d[%d]", name, k, i), 8)
	}
	ln := m.newVar(name+".len", 64)
	m.addPC(Cmp("bvule", ln, BV(64, uint64(max))))
	return Bytes{st: st, off: BV(64, 0), len: ln, cap: BV(64, uint64(max)), maxLen: max}
}
func (m *Machine) newVarNamed(n string, w int) *Term {
	if m.concrete != nil {
		return BV(w, m.concrete[n])
	}
	n = "|" + n + "|"
	v := Var(n, w)
	if !m.varSeen[n] {
		m.varSeen[n] = true
		m.vars = append(m.vars, v)
	}
	return v
}
func (m *Machine) symString(name string, max int) String {
	b := m.symBytes(name, max)
	return String{h: b.st.snapshot(), off: BV(64, 0), len: b.len, maxLen: max}
}

func (m *Machine) builtin(name string, args []Value, cc *ssa.CallCommon) Value {
	switch name {
	case "len":
		switch x := args[0].(type) {
		case Bytes:
			return x.len
		case String:
			return x.len
		case Slice:
			return BV(64, uint64(x.len))
		case *MapObj:
			if m.hb != nil {
				m.hbMem(x, false, false)
			}
			return BV(64, uint64(len(x.keys)))
		case NilPtr:
			return BV(64, 0)
		case Array:
			return BV(64, uint64(len(x)))
		case *Chan:
			return BV(64, uint64(len(x.buf)))
		}
	case "cap":
		switch x := args[0].(type) {
		case *Chan:
			return BV(64, uint64(x.cap))
		case NilPtr:
			return BV(64, 0)
		case Bytes:
			return x.cap
		case Slice:
			return BV(64, uint64(x.cap))
		}
	case "copy":
		dst := args[0].(Bytes)
		var srcH *histNode
		var srcOff, srcLen *Term
		switch s := args[1].(type) {
		case Bytes:
			if s.st == nil {
				return BV(64, 0)
			}
			srcH, srcOff, srcLen = s.st.snapshot(), s.off, s.len
		case String:
			srcH, srcOff, srcLen = s.h, s.off, s.len
		}
		n := Ite(Cmp("bvslt", dst.len, srcLen), dst.len, srcLen)
		if dst.st != nil {
			dst.st.copyFromHist(dst.off, srcH, srcOff, n)
		}
		return n
	case "append":
		switch d := args[0].(type) {
		case Bytes:
			var srcH *histNode
			var srcOff, srcLen *Term
			smax := 0
			switch s := args[1].(type) {
			case Bytes:
				if s.st == nil {
					return d
				}
				srcH, srcOff, srcLen, smax = s.st.snapshot(), s.off, s.len, s.maxLen
			case String:
				srcH, srcOff, srcLen, smax = s.h, s.off, s.len, s.maxLen
			}
			newLen := Bin("bvadd", d.len, srcLen)
			fits := Cmp("bvsle", newLen, d.cap)
			if d.st != nil && m.branch(fits) {
				d.st.copyFromHist(Bin("bvadd", d.off, d.len), srcH, srcOff, srcLen)
				return Bytes{st: d.st, off: d.off, len: newLen, cap: d.cap, maxLen: addBound(d.maxLen, d.len, smax, srcLen)}
			}
			// grow: new store, cap = 2*newLen (deterministic model)
			var st *ByteStore
			newCap := Bin("bvadd", newLen, newLen)
			if newCap.isC && newCap.c <= 1<<16 {
				st = newFlat(int(newCap.c))
			} else {
				st = newZeroHist()
			}
			if d.st != nil {
				st.copyFromHist(BV(64, 0), d.st.snapshot(), d.off, d.len)
			}
			st.copyFromHist(d.len, srcH, srcOff, srcLen)
			return Bytes{st: st, off: BV(64, 0), len: newLen, cap: newCap, maxLen: addBound(d.maxLen, d.len, smax, srcLen)}
		case Slice:
			s := args[1].(Slice)
			if d.et == nil {
				d.et = cc.Args[0].Type().Underlying().(*types.Slice).Elem()
			}
			n := d.len + s.len
			if d.arr != nil && n <= d.cap {
				for i := 0; i < s.len; i++ {
					(*d.arr)[d.off+d.len+i] = copyVal((*s.arr)[s.off+i])
				}
				return Slice{arr: d.arr, off: d.off, len: n, cap: d.cap, et: d.et}
			}
			arr := make([]Value, 2*n)
			for i := 0; i < d.len; i++ {
				arr[i] = (*d.arr)[d.off+i]
			}
			for i := 0; i < s.len; i++ {
				arr[d.len+i] = copyVal((*s.arr)[s.off+i])
			}
			for i := n; i < 2*n; i++ {
				arr[i] = m.zero(d.et)
			}
			return Slice{arr: &arr, off: 0, len: n, cap: 2 * n, et: d.et}
		}
	case "recover":
		return Iface{} // no Go-level panic is in flight when deferred code runs normally
	case "print", "println":
		return nil
	case "clear":
		switch x := args[0].(type) {
		case Bytes:
			if x.st != nil {
				n := m.concretize(x.len, 1<<16, "clear len")
				for i := 0; i < n; i++ {
					x.st.Write(Bin("bvadd", x.off, BV(64, uint64(i))), BV(8, 0))
				}
			}
			return nil
		case *MapObj:
			x.keys, x.vals = nil, nil
			return nil
		case Slice:
			for i := 0; i < x.len; i++ {
				(*x.arr)[x.off+i] = m.zero(x.et)
			}
			return nil
		case NilPtr:
			return nil
		}
	case "min", "max":
		r := args[0].(*Term)
		signed := isSigned(cc.Args[0].Type())
		lt := "bvult"
		if signed {
			lt = "bvslt"
		}
		for _, a := range args[1:] {
			t := a.(*Term)
			if name == "min" {
				r = Ite(Cmp(lt, t, r), t, r)
			} else {
				r = Ite(Cmp(lt, r, t), t, r)
			}
		}
		return r
	case "ssa:wrapnilchk":
		if _, ok := args[0].(NilPtr); ok {
			m.require(False, "panic", "nil receiver in wrapper")
		}
		return args[0]
	case "close":
		m.chanClose(args[0])
		return nil
	case "delete":
		if _, isNil := args[0].(NilPtr); isNil {
			return nil
		}
		mo := args[0].(*MapObj)
		if m.hb != nil {
			m.hbMem(mo, true, false)
		}
		i := m.mapFind(mo, args[1])
		if i >= 0 {
			mo.keys = append(mo.keys[:i], mo.keys[i+1:]...)
			mo.vals = append(mo.vals[:i], mo.vals[i+1:]...)
		}
		return nil
	}
	if len(args) == 0 {
		panic("builtin " + name + " is not modelled")
	}
	panic(fmt.Sprintf("builtin %s on %T", name, args[0]))
}

const apiPkg = "git.torproject.org/pluggable-transports/snowflake.git/v2/internal/verifapi."

func (m *Machine) litString(v Value) string {
	s := v.(String)
	if s.lit == nil {
		panic("nondet name must be literal")
	}
	return *s.lit
}

func (m *Machine) timeStruct(fn *ssa.Function, ns *Term) Value {
	z := m.zero(fn.Signature.Results().At(0).Type()).(Struct)
	z[1] = ns
	return z
}

func timeNs(v Value) *Term { return v.(Struct)[1].(*Term) }

func (m *Machine) syncKey(v Value) *Value {
	if sp, ok := v.(SlotPtr); ok {
		return sp.p
	}
	m.require(False, "panic", "nil dereference (sync primitive)")
	return nil
}

func (m *Machine) intrinsic(name string, fn *ssa.Function, args []Value) (Value, bool) {
	if strings.HasPrefix(name, apiPkg) {
		switch strings.TrimPrefix(name, apiPkg) {
		case "Int", "Int64", "Uint", "Uint64":
			return m.newVar(m.litString(args[0]), 64), true
		case "Uint32":
			return m.newVar(m.litString(args[0]), 32), true
		case "Uint8":
			return m.newVar(m.litString(args[0]), 8), true
		case "Uint16":
			return m.newVar(m.litString(args[0]), 16), true
		case "Bool":
			return m.newVar(m.litString(args[0]), 0), true
		case "Choice":
			v := m.newVar(m.litString(args[0]), 64)
			k := args[1].(*Term)
			m.assume(And(Cmp("bvsle", BV(64, 0), v), Cmp("bvslt", v, k)))
			return v, true
		case "Bytes":
			return m.symBytes(m.litString(args[0]), m.constInt(args[1], "Bytes max")), true
		case "String":
			return m.symString(m.litString(args[0]), m.constInt(args[1], "String max")), true
		case "BigBytes":
			nm := m.litString(args[0])
			k := m.ndCount[nm+".big"]
			m.ndCount[nm+".big"] = k + 1
			st := m.newSymStore(fmt.Sprintf("%s#%d", nm, k))
			n := args[1].(*Term)
			m.require(Cmp("bvsle", BV(64, 0), n), "panic", "BigBytes: negative size")
			return Bytes{st: st, off: BV(64, 0), len: n, cap: n}, true
		case "Param":
			if v, ok := m.params[m.litString(args[0])]; ok {
				return BV(64, uint64(int64(v))), true
			}
			return args[1], true
		case "Assume":
			m.assume(args[0].(*Term))
			return nil, true
		case "Assert":
			m.require(args[0].(*Term), "assert", m.litString(args[1]))
			return nil, true
		case "Cover":
			if m.dpos >= len(m.prefix) {
				m.covers[m.litString(args[0])] = true
				if m.sol != nil && m.lastModel == nil {
					if r, mod := m.check(nil, true); r == "sat" {
						m.lastModel = mod
					}
				}
			}
			return nil, true
		case "Concrete":
			v := m.concretize(args[0].(*Term), 256, "Concrete")
			return BV(64, uint64(v)), true
		case "And":
			return And(args[0].(*Term), args[1].(*Term)), true
		case "Or":
			return Or(args[0].(*Term), args[1].(*Term)), true
		case "Implies":
			return Or(Not(args[0].(*Term)), args[1].(*Term)), true
		case "Quiesce":
			m.park(&Op{kind: opQuiesce})
			return nil, true
		case "Yield":
			m.park(&Op{kind: opYield})
			return nil, true
		case "Daemon":
			m.cur.daemon = true
			return nil, true
		case "Native":
			return False, true
		case "LiveGoroutines":
			sub := m.litString(args[0])
			n := 0
			for _, g := range m.gs {
				if !g.done && g != m.cur && strings.Contains(g.fnName+" "+g.name, sub) {
					n++
				}
			}
			return BV(64, uint64(n)), true
		case "MaxAlloc":
			if m.maxAlloc == nil {
				return BV(64, 0), true
			}
			return m.maxAlloc, true
		case "ResetAlloc":
			m.maxAlloc = nil
			return nil, true
		case "Count":
			m.counters[m.litString(args[0])]++
			return nil, true
		case "Counted":
			return BV(64, uint64(m.counters[m.litString(args[0])])), true
		case "ExpectExit": // like ExpectPanic, but only a process exit (log.Fatal, os.Exit) is an ordinary outcome
			m.expectExit++
			exited := false
			func() {
				defer func() {
					if r := recover(); r != nil {
						if gp, ok := r.(goPanic); ok && strings.HasPrefix(gp.msg, "process exit") {
							exited = true
							return
						}
						panic(r)
					}
				}()
				m.callValue(args[0], &ssa.CallCommon{}, nil)
			}()
			m.expectExit--
			return Bool(exited), true
		case "ExpectPanic":
			m.expectPanic++
			panicked := false
			func() {
				defer func() {
					if r := recover(); r != nil {
						if _, ok := r.(goPanic); ok {
							panicked = true
							return
						}
						panic(r)
					}
				}()
				m.callValue(args[0], &ssa.CallCommon{}, nil)
			}()
			m.expectPanic--
			return Bool(panicked), true
		case "Reset":
			return nil, true
		case "JSONMembers":
			return m.jsonMembers(args[0], args[1]), true
		case "JSONTransfer":
			return m.jsonTransfer(args[0], args[1], args[2]), true
		}
		panic("unknown verifapi function " + name)
	}
	if strings.HasPrefix(name, "unique.Make[") {
		// Handle[T]{value *T}; no canonicalisation (only netip zone handles use it)
		v := copyVal(args[0])
		return Struct{SlotPtr{&v}}, true
	}
	switch name {
	case "internal/bytealg.IndexByteString", "internal/bytealg.IndexByte":
		return m.indexByte(args[0], args[1].(*Term), false), true
	case "internal/bytealg.LastIndexByteString", "internal/bytealg.LastIndexByte":
		return m.indexByte(args[0], args[1].(*Term), true), true
	case "internal/bytealg.CountString", "internal/bytealg.Count":
		return m.countByte(args[0], args[1].(*Term)), true
	case "internal/bytealg.Equal", "bytes.Equal":
		return m.bytesEq(args[0], args[1]), true
	case "internal/bytealg.MakeNoZero":
		n := args[0].(*Term)
		var st *ByteStore
		if n.isC && n.c <= 1<<16 {
			st = newFlat(int(n.c))
		} else {
			st = newZeroHist()
		}
		return Bytes{st: st, off: BV(64, 0), len: n, cap: n}, true
	case "crypto/rand.Read", "math/rand.Read":
		b := args[0].(Bytes)
		n := m.concretize(b.len, 64, "rand.Read len")
		for i := 0; i < n; i++ {
			b.st.Write(Bin("bvadd", b.off, BV(64, uint64(i))), m.newVar("rand", 8))
		}
		return Tuple{b.len, Iface{}}, true
	case "(*strings.Builder).String":
		// unsafe.String(unsafe.SliceData(b.buf), len(b.buf)): the bytes written so far
		st := (*args[0].(SlotPtr).p).(Struct)
		b := st[len(st)-1].(Bytes)
		if b.st == nil {
			return strLit(""), true
		}
		return String{h: b.st.snapshot(), off: b.off, len: b.len, maxLen: b.maxLen}, true
	case "os.runtime_args": // os.Args: the program name only
		arr := []Value{strLit("prog")}
		return Slice{arr: &arr, off: 0, len: 1, cap: 1, et: types.Typ[types.String]}, true
	case "internal/abi.NoEscape", "strings.noescape", "runtime.noescape":
		return args[0], true
	case "errors.Is":
		// the errors the repo compares are plain sentinel values (no Unwrap chains reach here)
		a, b := args[0].(Iface), args[1].(Iface)
		if a.t == nil || b.t == nil {
			return Bool(a.t == nil && b.t == nil), true
		}
		return m.valEq(a, b), true
	case "errors.New", "fmt.Errorf":
		m.opaqueSeq++
		var v Value = &Opaque{tag: "error:" + describeStr(args[0]), id: m.opaqueSeq}
		return Iface{t: errorPtrType(fn), v: v}, true
	case "fmt.Sprintf", "fmt.Sprint", "fmt.Sprintln":
		m.fmtRenderErrors(args)
		return strLit("<" + name + ">"), true
	case "log.Printf", "log.Println", "log.Print", "(*log.Logger).Printf", "(*log.Logger).Println", "(*log.Logger).Print",
		"fmt.Printf", "fmt.Println", "fmt.Print", "log.SetFlags", "log.SetOutput":
		if _, used := m.redirects[name]; !used {
			return m.zero(fn.Signature.Results()), true
		}
	case "fmt.Fprintf", "fmt.Fprintln", "fmt.Fprint":
		if _, used := m.redirects[name]; !used {
			return m.fmtToWriter(name, args), true
		}
	case "log.Fatal", "log.Fatalf", "log.Fatalln", "os.Exit", "(*log.Logger).Fatal", "(*log.Logger).Fatalf", "(*log.Logger).Fatalln":
		m.require(False, "panic", "process exit via "+name)
	case "log.Panicf", "log.Panic", "log.Panicln":
		m.require(False, "panic", "explicit panic via "+name)
	case "(*sync.Pool).Get":
		// A pool hands back what was Put last if anything is there (what the real pool does on
		// one P between collections, and the adversarial case for a value that is still in use
		// after it was Put); otherwise it calls New.
		p := args[0].(SlotPtr)
		if items := m.pools[p.p]; len(items) > 0 {
			v := items[len(items)-1]
			m.pools[p.p] = items[:len(items)-1]
			return v, true
		}
		st := (*p.p).(Struct)
		// field "New" is the last field
		nf := st[len(st)-1]
		return m.callValue(nf, &ssa.CallCommon{}, nil), true
	case "(*sync.Pool).Put":
		p := args[0].(SlotPtr)
		if m.pools == nil {
			m.pools = map[*Value][]Value{}
		}
		m.pools[p.p] = append(m.pools[p.p], args[1])
		return nil, true
	case "(*sync.Mutex).Lock":
		m.mutexLock(m.syncKey(args[0]))
		return nil, true
	case "(*sync.Mutex).Unlock":
		m.mutexUnlock(m.syncKey(args[0]))
		return nil, true
	case "(*sync.Mutex).TryLock":
		k := m.syncKey(args[0])
		m.park(&Op{kind: opYield})
		if m.locked[k] {
			return False, true
		}
		m.locked[k] = true
		return True, true
	case "(*sync.RWMutex).Lock":
		m.mutexLock(m.syncKey(args[0]))
		return nil, true
	case "(*sync.RWMutex).Unlock":
		m.mutexUnlock(m.syncKey(args[0]))
		return nil, true
	case "(*sync.RWMutex).RLock":
		m.mutexRLock(m.syncKey(args[0]))
		return nil, true
	case "(*sync.RWMutex).RUnlock":
		m.mutexRUnlock(m.syncKey(args[0]))
		return nil, true
	case "(*sync.WaitGroup).Add":
		m.wgAdd(m.syncKey(args[0]), m.constInt(args[1], "WaitGroup.Add"))
		return nil, true
	case "(*sync.WaitGroup).Done":
		m.wgAdd(m.syncKey(args[0]), -1)
		return nil, true
	case "(*sync.WaitGroup).Wait":
		m.wgWait(m.syncKey(args[0]))
		return nil, true
	case "(*sync.Once).Do":
		key := m.syncKey(args[0])
		m.park(&Op{kind: opOnce, mu: key})
		if !m.onceDone[key] {
			m.onceDone[key] = true
			if m.onceRunning != nil {
				m.onceRunning[key] = true
			}
			m.callValue(args[1], &ssa.CallCommon{}, nil)
			if m.onceRunning != nil {
				delete(m.onceRunning, key)
			}
			m.hbRelease(m.cur, key)
		} else {
			m.hbAcquire(m.cur, key)
		}
		return nil, true
	case "(*sync/atomic.Value).Store":
		m.park(&Op{kind: opAtomic})
		m.hbAcquire(m.cur, m.syncKey(args[0]))
		m.atomicVals[m.syncKey(args[0])] = args[1]
		m.hbRelease(m.cur, m.syncKey(args[0]))
		return nil, true
	case "(*sync/atomic.Value).Load":
		m.park(&Op{kind: opAtomic})
		m.hbAcquire(m.cur, m.syncKey(args[0]))
		if v, ok := m.atomicVals[m.syncKey(args[0])]; ok {
			return v, true
		}
		return Iface{}, true
	case "sync/atomic.AddInt64", "sync/atomic.AddUint64", "sync/atomic.AddInt32", "sync/atomic.AddUint32":
		m.park(&Op{kind: opAtomic})
		p := args[0]
		m.hbAcquire(m.cur, hbKeyOf(p))
		m.atomicAccess = true
		nv := Bin("bvadd", m.load(p).(*Term), args[1].(*Term))
		m.store(p, nv)
		m.atomicAccess = false
		m.hbRelease(m.cur, hbKeyOf(p))
		return nv, true
	case "sync/atomic.LoadInt64", "sync/atomic.LoadUint64", "sync/atomic.LoadInt32", "sync/atomic.LoadUint32":
		m.park(&Op{kind: opAtomic})
		m.hbAcquire(m.cur, hbKeyOf(args[0]))
		m.atomicAccess = true
		v := m.load(args[0])
		m.atomicAccess = false
		return v, true
	case "sync/atomic.StoreInt64", "sync/atomic.StoreUint64", "sync/atomic.StoreInt32", "sync/atomic.StoreUint32":
		m.park(&Op{kind: opAtomic})
		m.atomicAccess = true
		m.store(args[0], args[1])
		m.atomicAccess = false
		m.hbRelease(m.cur, hbKeyOf(args[0]))
		return nil, true
	case "time.Unix": // integer-nanosecond model: Time{wall:0, ext:ns, loc:nil}
		return m.timeStruct(fn, Bin("bvadd", Bin("bvmul", args[0].(*Term), BV(64, 1000000000)), args[1].(*Term))), true
	case "(time.Time).Sub":
		return Bin("bvsub", timeNs(args[0]), timeNs(args[1])), true
	case "(time.Time).Add":
		return m.timeStruct(fn, Bin("bvadd", timeNs(args[0]), args[1].(*Term))), true
	case "(time.Time).Before":
		return Cmp("bvslt", timeNs(args[0]), timeNs(args[1])), true
	case "(time.Time).After":
		return Cmp("bvslt", timeNs(args[1]), timeNs(args[0])), true
	case "(time.Time).Equal":
		return Eq(timeNs(args[0]), timeNs(args[1])), true
	case "(time.Time).UTC", "(time.Time).Local", "(time.Time).Round", "(time.Time).Truncate":
		return args[0], true
	case "(time.Time).Format", "(time.Time).String":
		return strLit("<time>"), true
	case "(time.Time).IsZero":
		return Eq(timeNs(args[0]), BV(64, 0)), true
	case "(time.Time).UnixNano":
		return timeNs(args[0]), true
	case "time.Now":
		v := m.newVar("time.now", 64)
		lo := BV(64, 0)
		if m.lastNow != nil {
			lo = m.lastNow
		}
		m.assume(And(Cmp("bvsle", lo, v), Cmp("bvslt", v, BV(64, 1<<60))))
		m.lastNow = v
		return m.timeStruct(fn, v), true
	case "time.Since":
		v := m.newVar("time.since", 64)
		m.assume(And(Cmp("bvsle", BV(64, 0), v), Cmp("bvslt", v, BV(64, 1<<60))))
		return v, true
	case "time.After":
		c := m.newChan(1)
		c.timer = true
		c.buf = append(c.buf, m.zero(fn.Signature.Results().At(0).Type().Underlying().(*types.Chan).Elem()))
		return c, true
	case "time.NewTicker", "time.NewTimer":
		// *Ticker / *Timer: struct whose first field C is the channel
		pt := fn.Signature.Results().At(0).Type().(*types.Pointer).Elem()
		st := m.zero(pt).(Struct)
		c := m.newChan(1)
		c.timer = true
		c.ticker = name == "time.NewTicker"
		ct := pt.Underlying().(*types.Struct).Field(0).Type().Underlying().(*types.Chan).Elem()
		c.buf = append(c.buf, m.zero(ct))
		st[0] = c
		var v Value = st
		return SlotPtr{&v}, true
	case "(*time.Ticker).Stop", "(*time.Ticker).Reset":
		return nil, true
	case "(*time.Timer).Stop", "(*time.Timer).Reset":
		return False, true
	case "time.Sleep":
		m.park(&Op{kind: opYield})
		return nil, true
	case "time.stopTimer":
		return False, true
	case "runtime.Gosched":
		m.park(&Op{kind: opYield})
		return nil, true
	case "math/bits.LeadingZeros64", "math/bits.Len64":
		x := args[0].(*Term)
		r := BV(64, 0) // Len64
		for i := 0; i < 64; i++ {
			r = Ite(Eq(Extract(i, i, x), BV(1, 1)), BV(64, uint64(i+1)), r)
		}
		if name == "math/bits.LeadingZeros64" {
			r = Bin("bvsub", BV(64, 64), r)
		}
		return r, true
	case "math.Ceil":
		return FPUn("fp.ceil", args[0].(*Term)), true
	case "math.Floor":
		return FPUn("fp.floor", args[0].(*Term)), true
	case "unsafe.String", "unsafe.StringData", "unsafe.SliceData":
	}
	return nil, false
}

func (m *Machine) assume(c *Term) {
	if c == False {
		panic(pathEnd{"assume false"})
	}
	if c == True {
		return
	}
	m.addPC(c)
	if m.dpos >= len(m.prefix) && !m.feasible(True) {
		panic(pathEnd{"assume infeasible"})
	}
}

func (m *Machine) constInt(v Value, what string) int {
	t := v.(*Term)
	if !t.isC {
		panic(what + " must be concrete")
	}
	return int(sext64(t.c, t.w))
}

func errorPtrType(fn *ssa.Function) types.Type { return fn.Signature.Results().At(0).Type() }

func (m *Machine) bytesView(v Value) (h *histNode, off, ln *Term, max int, isNil bool) {
	switch s := v.(type) {
	case String:
		return s.h, s.off, s.len, s.maxLen, false
	case Bytes:
		if s.st == nil {
			return &histNode{kind: 0}, BV(64, 0), BV(64, 0), 0, true
		}
		return s.st.snapshot(), s.off, s.len, s.maxLen, false
	}
	panic(fmt.Sprintf("bytesView %T", v))
}

func (m *Machine) bytesEq(a, b Value) *Term {
	ah, ao, al, am, _ := m.bytesView(a)
	bh, bo, bl, bm, _ := m.bytesView(b)
	return m.strEq(String{h: ah, off: ao, len: al, maxLen: am}, String{h: bh, off: bo, len: bl, maxLen: bm})
}

func (m *Machine) countByte(sv Value, c *Term) Value {
	h, off, ln, max, _ := m.bytesView(sv)
	max = m.boundOf(ln, max)
	r := BV(64, 0)
	for i := 0; i < max; i++ {
		ii := BV(64, uint64(i))
		hit := And(Cmp("bvult", ii, ln), Eq(readHist(h, Bin("bvadd", off, ii)), c))
		r = Bin("bvadd", r, Ite(hit, BV(64, 1), BV(64, 0)))
	}
	return r
}

func describeStr(v Value) string {
	if s, ok := v.(String); ok && s.lit != nil {
		return *s.lit
	}
	return "?"
}

func (m *Machine) indexByte(sv Value, c *Term, last bool) Value {
	var h *histNode
	var off, ln *Term
	max := 0
	switch s := sv.(type) {
	case String:
		h, off, ln, max = s.h, s.off, s.len, s.maxLen
	case Bytes:
		if s.st == nil {
			return BV(64, ^uint64(0))
		}
		h, off, ln, max = s.st.snapshot(), s.off, s.len, s.maxLen
	}
	max = m.boundOf(ln, max)
	r := BV(64, ^uint64(0))
	if !last {
		for i := max - 1; i >= 0; i-- {
			ii := BV(64, uint64(i))
			hit := And(Cmp("bvult", ii, ln), Eq(readHist(h, Bin("bvadd", off, ii)), c))
			r = Ite(hit, ii, r)
		}
	} else {
		for i := 0; i < max; i++ {
			ii := BV(64, uint64(i))
			hit := And(Cmp("bvult", ii, ln), Eq(readHist(h, Bin("bvadd", off, ii)), c))
			r = Ite(hit, ii, r)
		}
	}
	return r
}

func addBound(am int, al *Term, bm int, bl *Term) int {
	if al.isC {
		am = int(al.c)
	} else if am == 0 {
		return 0
	}
	if bl.isC {
		bm = int(bl.c)
	} else if bm == 0 {
		return 0
	}
	return am + bm
}

// boundOf returns a sound upper bound for a length term (hint>0 is trusted)
func (m *Machine) boundOf(ln *Term, hint int) int {
	if ln.isC {
		return int(ln.c)
	}
	if hint > 0 {
		return hint
	}
	for _, b := range []uint64{4, 8, 16, 32, 64, 128, 256} {
		if !m.feasible(Cmp("bvult", BV(64, b), ln)) {
			return int(b)
		}
	}
	panic(pathEnd{"unwind: length bound > 256"})
}
