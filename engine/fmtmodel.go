package main

// fmt.Fprintf / Fprint / Fprintln to an io.Writer. Formatting in general is not modelled (log
// and Sprintf calls are no-ops / markers), but output written to a caller-supplied writer is
// observable behaviour (an HTTP response body, say), so the simple cases are rendered and handed
// to the writer's Write method, and everything else ends the path as inconclusive instead of
// silently writing nothing:
//   - a literal format with %s / %v / %d / %% and string, []byte, error-text or concrete integer
//     operands; Fprint / Fprintln of such operands;
//   - a format that is not a literal (data used as a format string): the bytes themselves if they
//     contain no '%', otherwise something else (the path forks on that).

import (
	"fmt"
	"go/types"
	"strings"
)

// verb: 's', 'v', 'd' ('v' also stands for Fprint / Fprintln operands)
func (m *Machine) fmtOperand(v Value, verb byte) (String, bool) {
	i, ok := v.(Iface)
	if !ok || i.t == nil {
		return String{}, false
	}
	if hasValueMethod(i.t, "String", "Format", "GoString") && !strings.HasPrefix(fmt.Sprintf("%T", i.v), "*main.Opaque") {
		return String{}, false // Stringers and Formatters print through their methods
	}
	switch x := i.v.(type) {
	case String:
		return x, verb != 'd'
	case Bytes:
		if verb != 's' {
			return String{}, false // %v of a byte slice prints [1 2 3]
		}
		return m.convert(x, types.NewSlice(types.Typ[types.Byte]), tyString).(String), true
	case *Term:
		if verb == 's' {
			return String{}, false
		}
		if x.isC && x.w > 0 && !isFloat(i.t) {
			if isSigned(i.t) {
				sh := uint(64 - x.w)
				return strLit(fmt.Sprint(int64(x.c<<sh) >> sh)), true
			}
			return strLit(fmt.Sprint(x.c)), true
		}
	case *Opaque:
		if strings.HasPrefix(x.tag, "error:") && verb != 'd' && !strings.Contains(x.tag, "%") { // (Errorf keeps its format text only)
			return strLit(strings.TrimPrefix(x.tag, "error:")), true
		}
	}
	return String{}, false
}

func (m *Machine) fmtToWriter(name string, args []Value) Value {
	unsupported := func(why string) { panic(pathEnd{"engine: unsupported " + name + " to a writer: " + why}) }
	w, ok := args[0].(Iface)
	if !ok || w.t == nil {
		m.require(False, "panic", "nil writer in "+name)
	}
	if strings.HasSuffix(w.t.String(), "os.File") {
		if _, used := m.redirects["(*os.File).Write"]; !used {
			return Tuple{BV(64, 0), Iface{}} // the process's own stderr/stdout: not observed
		}
	}
	var ops []Value
	if sl, ok := args[len(args)-1].(Slice); ok && sl.arr != nil {
		ops = (*sl.arr)[sl.off : sl.off+sl.len]
	}
	out := strLit("")
	add := func(s String) { out = m.concat(out, s) }
	switch name {
	case "fmt.Fprintf":
		f := args[1].(String)
		if f.lit == nil {
			if len(ops) != 0 {
				unsupported("a computed format with operands")
			}
			pct := False
			n := m.boundOf(f.len, f.maxLen)
			for k := 0; k < n; k++ {
				kk := BV(64, uint64(k))
				pct = Or(pct, And(Cmp("bvult", kk, f.len), Eq(readHist(f.h, Bin("bvadd", f.off, kk)), BV(8, '%'))))
			}
			if pct != False && (pct == True || m.branch(pct)) {
				add(strLit("%!(data used as a format string)"))
			} else {
				add(f)
			}
			break
		}
		lit, k := *f.lit, 0
		for p := 0; p < len(lit); p++ {
			if lit[p] != '%' {
				add(strLit(lit[p : p+1]))
				continue
			}
			p++
			if p >= len(lit) {
				unsupported("format " + lit)
			}
			switch lit[p] {
			case '%':
				add(strLit("%"))
			case 's', 'v', 'd':
				if k >= len(ops) {
					unsupported("missing operand for " + lit)
				}
				s, ok := m.fmtOperand(ops[k], lit[p])
				if !ok {
					unsupported("operand " + describe(ops[k]) + " of " + lit)
				}
				add(s)
				k++
			default:
				unsupported("verb in " + lit)
			}
		}
		if k != len(ops) {
			unsupported("extra operands for " + lit)
		}
	default: // Fprint, Fprintln
		for k, o := range ops {
			s, ok := m.fmtOperand(o, 'v')
			if !ok {
				unsupported("operand " + describe(o))
			}
			if k > 0 && name == "fmt.Fprintln" {
				add(strLit(" "))
			}
			if k > 0 && name == "fmt.Fprint" {
				if _, isStr := ops[k].(Iface).v.(String); !isStr {
					if _, prevStr := ops[k-1].(Iface).v.(String); !prevStr {
						add(strLit(" "))
					}
				}
			}
			add(s)
		}
		if name == "fmt.Fprintln" {
			add(strLit("\n"))
		}
	}
	fn := m.prog.LookupMethod(w.t, nil, "Write")
	if fn == nil {
		unsupported("no Write method on " + w.t.String())
	}
	b := m.convert(out, tyString, types.NewSlice(types.Typ[types.Byte]))
	return m.callFn(fn, []Value{w.v, b})
}

// fmtRenderErrors: formatting is not modelled, but fmt does call the Error method of an operand
// that is an error. For operands whose type is defined in the repository that call is made
// (result ignored), so that an Error method that formats its own receiver - unbounded recursion,
// a fatal stack overflow natively - is reported instead of going unnoticed.
func (m *Machine) fmtRenderErrors(args []Value) {
	if len(args) == 0 {
		return
	}
	sl, ok := args[len(args)-1].(Slice)
	if !ok || sl.arr == nil {
		return
	}
	for _, o := range (*sl.arr)[sl.off : sl.off+sl.len] {
		i, ok := o.(Iface)
		if !ok || i.t == nil {
			continue
		}
		if _, opaque := i.v.(*Opaque); opaque {
			continue
		}
		if !strings.Contains(i.t.String(), modPath) {
			continue
		}
		fn := m.prog.LookupMethod(i.t, nil, "Error")
		if fn == nil || fn.Signature.Params().Len() != 0 || fn.Signature.Results().Len() != 1 {
			continue
		}
		m.errorDepth++
		if m.errorDepth > 6 {
			m.errorDepth = 0
			m.require(False, "panic", "unbounded recursion: the Error method of "+i.t.String()+" formats its own receiver (fatal stack overflow)")
		}
		m.callFn(fn, []Value{i.v})
		m.errorDepth--
	}
}
