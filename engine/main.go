package main

import (
	"fmt"
	"os"
	"runtime/pprof"
)

func main() {
	if len(os.Args) < 2 {
		fmt.Fprintln(os.Stderr, "usage: gosmt check <id> [--tier quick|thorough] [--job name] | gosmt replay <cex.json> | gosmt selftest")
		os.Exit(2)
	}
	if p := os.Getenv("VERIF_PPROF"); p != "" {
		f, _ := os.Create(p)
		pprof.StartCPUProfile(f)
		defer pprof.StopCPUProfile()
	}
	switch os.Args[1] {
	case "check":
		rc := cmdCheck(os.Args[2:])
		pprof.StopCPUProfile()
		os.Exit(rc)
	case "check-unused":
		os.Exit(cmdCheck(os.Args[2:]))
	case "replay":
		os.Exit(cmdReplay(os.Args[2:]))
	case "selftest":
		os.Exit(cmdSelftest(os.Args[2:]))
	case "consts":
		os.Exit(cmdConsts(os.Args[2:]))
	}
	fmt.Fprintln(os.Stderr, "unknown command", os.Args[1])
	os.Exit(2)
}
