package main

// RegexSpec / RegexResult: the C07 regex bridge (filled in by regexjob_impl).
type RegexSpec struct {
	Package string         `json:"package"`
	CapS    map[string]int `json:"cap_s"`
	MaxLen  int            `json:"max_len"`
}

type RegexWitness struct {
	Kind   string `json:"kind"`
	Family string `json:"family"`
	Input  string `json:"input"`
	Output string `json:"output"`
}

type RegexResult struct {
	Queries    int                      `json:"queries"`
	Discharged int                      `json:"discharged"`
	SolverS    float64                  `json:"solver_time_s"`
	Patterns   map[string]string        `json:"patterns_extracted"`
	Families   []map[string]interface{} `json:"family_queries"`
	Inconcl    []string                 `json:"inconclusive,omitempty"`
	Violations []*RegexWitness          `json:"violations,omitempty"`
	Samples    []interface{}            `json:"samples,omitempty"`
}

func runRegex(spec *RegexSpec, tier, id string) *RegexResult {
	return &RegexResult{Inconcl: []string{"regex bridge not built yet"}}
}

func cmdConsts(args []string) int   { return 2 }
func cmdSelftest(args []string) int { return 0 }
