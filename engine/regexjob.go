package main

// The C07 regex bridge (DESIGN.md §2.9).  Go's regexp matcher cannot be executed symbolically,
// so the *pattern constants* are pulled out of the SSA of safelog's init on every run, parsed
// with Go's own regexp/syntax and translated to the solver's regular-expression theory.
//
//  F1  coverage: for each reference address family R (written here from the textual forms Go's
//      net package prints/accepts, independently of the patterns) and each delimiter context,
//      "exists T in left·R·right with no match of fullAddrPattern anywhere in T" must be unsat;
//      and every fullAddrPattern match must contain an addressPattern match.
//  W   witnesses: solver-generated multi-address lines (a1 d a2 [d a3]) are run through the
//      real Scrub natively; an address in delimiter context that survives is a violation.
//      (F2 - Scrub returns a fixpoint of the one-pass replacement - is decided by the engine
//      harness VerifC07_ScrubFixpoint; with F1 it implies the multi-address clause for every
//      line, and the witnesses are then a cross-check.  Without F2 the witnesses are the only
//      coverage of that clause and the evidence says so.)

import (
	"encoding/json"
	"fmt"
	"go/constant"
	"os"
	"os/exec"
	"path/filepath"
	"regexp"
	"regexp/syntax"
	"sort"
	"strings"
	"sync"
	"time"

	"golang.org/x/tools/go/ssa"
)

type RegexSpec struct {
	Package string         `json:"package"`
	CapS    map[string]int `json:"cap_s"`
	MaxLen  int            `json:"max_len"`
}

type RegexWitness struct {
	Kind   string `json:"kind"`
	Family string `json:"family"`
	Input  string `json:"input"`
	Output string `json:"output"`
}

type RegexResult struct {
	Queries    int                      `json:"queries"`
	Discharged int                      `json:"discharged"`
	SolverS    float64                  `json:"solver_time_s"`
	Patterns   map[string]string        `json:"patterns_extracted"`
	Families   []map[string]interface{} `json:"family_queries"`
	Inconcl    []string                 `json:"inconclusive,omitempty"`
	Violations []*RegexWitness          `json:"violations,omitempty"`
	Samples    []interface{}            `json:"samples,omitempty"`
	Witnesses  int                      `json:"witness_lines_run_through_real_Scrub"`
	XVal       int                      `json:"translation_cross_validation_strings"`
}

const sBegin, sEnd = 0x2, 0x3

func reCh(r rune) string { return fmt.Sprintf("\"\\u{%x}\"", r) }

func reRng(lo, hi rune) []string {
	var out []string
	add := func(a, b rune) {
		if a > b {
			return
		}
		if a == b {
			out = append(out, "(str.to_re "+reCh(a)+")")
		} else {
			out = append(out, "(re.range "+reCh(a)+" "+reCh(b)+")")
		}
	}
	if hi > 0x2FFFF {
		hi = 0x2FFFF
	}
	// remove the two sentinels from every class
	cur := lo
	for _, s := range []rune{sBegin, sEnd} {
		if s >= cur && s <= hi {
			add(cur, s-1)
			cur = s + 1
		}
	}
	add(cur, hi)
	return out
}

func reUnion(xs []string) string {
	if len(xs) == 0 {
		return "re.none"
	}
	if len(xs) == 1 {
		return xs[0]
	}
	return "(re.union " + strings.Join(xs, " ") + ")"
}
func reConcat(xs ...string) string {
	if len(xs) == 0 {
		return "(str.to_re \"\")"
	}
	if len(xs) == 1 {
		return xs[0]
	}
	return "(re.++ " + strings.Join(xs, " ") + ")"
}

func reTranslate(re *syntax.Regexp) (string, error) {
	var tr func(re *syntax.Regexp) string
	var terr error
	tr = func(re *syntax.Regexp) string {
		switch re.Op {
		case syntax.OpEmptyMatch:
			return "(str.to_re \"\")"
		case syntax.OpLiteral:
			var xs []string
			for _, r := range re.Rune {
				if re.Flags&syntax.FoldCase != 0 {
					terr = fmt.Errorf("case folding not supported")
				}
				xs = append(xs, "(str.to_re "+reCh(r)+")")
			}
			return reConcat(xs...)
		case syntax.OpCharClass:
			var xs []string
			for i := 0; i+1 < len(re.Rune); i += 2 {
				xs = append(xs, reRng(re.Rune[i], re.Rune[i+1])...)
			}
			return reUnion(xs)
		case syntax.OpAnyChar:
			return reUnion(reRng(0, 0x2FFFF))
		case syntax.OpAnyCharNotNL:
			return reUnion(append(reRng(0, '\n'-1), reRng('\n'+1, 0x2FFFF)...))
		case syntax.OpBeginText:
			return "(str.to_re " + reCh(sBegin) + ")"
		case syntax.OpEndText:
			return "(str.to_re " + reCh(sEnd) + ")"
		case syntax.OpCapture:
			return tr(re.Sub[0])
		case syntax.OpStar:
			return "(re.* " + tr(re.Sub[0]) + ")"
		case syntax.OpPlus:
			return "(re.+ " + tr(re.Sub[0]) + ")"
		case syntax.OpQuest:
			return "(re.opt " + tr(re.Sub[0]) + ")"
		case syntax.OpRepeat:
			if re.Max < 0 {
				return fmt.Sprintf("(re.++ ((_ re.loop %d %d) %s) (re.* %s))", re.Min, re.Min, tr(re.Sub[0]), tr(re.Sub[0]))
			}
			return fmt.Sprintf("((_ re.loop %d %d) %s)", re.Min, re.Max, tr(re.Sub[0]))
		case syntax.OpConcat:
			var xs []string
			for _, s := range re.Sub {
				xs = append(xs, tr(s))
			}
			return reConcat(xs...)
		case syntax.OpAlternate:
			var xs []string
			for _, s := range re.Sub {
				xs = append(xs, tr(s))
			}
			return reUnion(xs)
		}
		terr = fmt.Errorf("regexp operator %s not supported by the translation", re.Op)
		return "re.none"
	}
	s := tr(re)
	return s, terr
}

func goRegexToSMT(pat string) (string, error) {
	re, err := syntax.Parse(pat, syntax.Perl)
	if err != nil {
		return "", err
	}
	return reTranslate(re)
}

// extractPatterns finds the constant arguments of regexp.MustCompile in the package's init and
// classifies them by where the result is stored: the global named addressRegexp -> "addr",
// anything else (the scrubberPatterns slice) -> "full<k>".
func extractPatterns(pkgDir string) (map[string]string, error) {
	spec := &JobSpec{Pkg: pkgDir}
	ld, err := loadJob(spec, nil)
	if err != nil {
		return nil, err
	}
	out := map[string]string{}
	nfull := 0
	for name, mem := range ld.pkg.Members {
		f, ok := mem.(*ssa.Function)
		if !ok || !(name == "init" || strings.HasPrefix(name, "init#")) {
			continue
		}
		for _, b := range f.Blocks {
			for _, in := range b.Instrs {
				call, ok := in.(*ssa.Call)
				if !ok {
					continue
				}
				callee, ok := call.Call.Value.(*ssa.Function)
				if !ok || callee.String() != "regexp.MustCompile" {
					continue
				}
				c, ok := call.Call.Args[0].(*ssa.Const)
				if !ok {
					return nil, fmt.Errorf("regexp.MustCompile with a non-constant pattern in %s", pkgDir)
				}
				pat := constant.StringVal(c.Value)
				key := ""
				for _, ref := range *call.Referrers() {
					if st, ok := ref.(*ssa.Store); ok {
						if g, ok := st.Addr.(*ssa.Global); ok {
							key = g.Name()
						}
					}
				}
				switch key {
				case "addressRegexp":
					out["addr"] = pat
				default:
					out[fmt.Sprintf("full%d", nfull)] = pat
					nfull++
				}
			}
		}
	}
	// the placeholder: the constant handed to (*Regexp).ReplaceAll anywhere in the package
	for _, mem := range ld.pkg.Members {
		f, ok := mem.(*ssa.Function)
		if !ok {
			continue
		}
		fns := append([]*ssa.Function{f}, f.AnonFuncs...)
		for _, fn := range fns {
			for _, b := range fn.Blocks {
				for _, in := range b.Instrs {
					call, ok := in.(*ssa.Call)
					if !ok {
						continue
					}
					callee, ok := call.Call.Value.(*ssa.Function)
					if !ok || callee.String() != "(*regexp.Regexp).ReplaceAll" || len(call.Call.Args) < 3 {
						continue
					}
					arg := call.Call.Args[2]
					if cv, ok := arg.(*ssa.Convert); ok {
						arg = cv.X
					}
					if c, ok := arg.(*ssa.Const); ok && c.Value != nil {
						out["placeholder"] = constant.StringVal(c.Value)
					}
				}
			}
		}
	}
	if out["addr"] == "" || out["full0"] == "" {
		return nil, fmt.Errorf("could not find the scrubber patterns in %s (found %v)", pkgDir, out)
	}
	return out, nil
}

// ---- reference grammar (Go regexp syntax; independent of safelog's patterns) -------------------

const (
	refOctet = `(25[0-5]|2[0-4][0-9]|1[0-9][0-9]|[1-9]?[0-9])`
	refIPv4  = refOctet + `\.` + refOctet + `\.` + refOctet + `\.` + refOctet
	refH16   = `[0-9a-fA-F]{1,4}`
	refPort  = `[0-9]{1,5}`
)

func refGroups(n int) string { // n >= 1 groups separated by ':'
	if n == 1 {
		return refH16
	}
	return refH16 + fmt.Sprintf(`(:%s){%d}`, refH16, n-1)
}

// compressed forms: a groups, "::", b groups  (a+b <= max)
func refCompressed(max int, tail string) string {
	var alts []string
	for a := 0; a <= max; a++ {
		for b := 0; a+b <= max; b++ {
			s := ""
			if a > 0 {
				s += refGroups(a)
			}
			s += "::"
			if b > 0 {
				s += refGroups(b)
				if tail != "" {
					s += ":"
				}
			}
			s += tail
			alts = append(alts, s)
		}
	}
	return "(" + strings.Join(alts, "|") + ")"
}

type refFamily struct{ name, pat string }

func refFamilies() []refFamily {
	v6full := refGroups(8)
	v6comp := refCompressed(7, "")
	// the two IPv4-embedded forms are families of their own, so that each gets its own witnesses
	// (a scrubber that handles only the compressed form still "matches something" in the other)
	v6embFull := refGroups(6) + ":" + refIPv4
	v6embComp := refCompressed(5, refIPv4)
	return []refFamily{
		{"ipv4", refIPv4},
		{"ipv4-port", refIPv4 + ":" + refPort},
		{"ipv6-full", v6full},
		{"ipv6-compressed", v6comp},
		{"ipv6-ipv4-embedded", v6embComp},
		{"ipv6-ipv4-embedded-uncompressed", v6embFull},
		{"ipv6-full-bracketed", `\[` + v6full + `\]`},
		{"ipv6-compressed-bracketed", `\[` + v6comp + `\]`},
		{"ipv6-ipv4-embedded-bracketed", `\[` + v6embComp + `\]`},
		{"ipv6-ipv4-embedded-uncompressed-bracketed", `\[` + v6embFull + `\]`},
		{"ipv6-full-bracketed-port", `\[` + v6full + `\]:` + refPort},
		{"ipv6-compressed-bracketed-port", `\[` + v6comp + `\]:` + refPort},
	}
}

// delimiter contexts: line boundary (text boundary), whitespace, punctuation other than ':'
var refLeft = map[string]string{"start": `^`, "space": `[\t\n\f\r ]`, "punct": `[^0-9A-Za-z_:\t\n\f\r ]`}
var refRight = map[string]string{"end": `$`, "space": `[\t\n\f\r ]`, "punct": `[^0-9A-Za-z_:\t\n\f\r ]`}

// allReferenceGo is the Go regexp that finds any reference address in delimiter context
// (used natively on Scrub's output).
func allReferenceGo() string {
	var alts []string
	for _, f := range refFamilies() {
		alts = append(alts, "("+f.pat+")")
	}
	return `(^|[\t\n\f\r ]|[^0-9A-Za-z_:\t\n\f\r ])(` + strings.Join(alts, "|") + `)($|[\t\n\f\r ]|[^0-9A-Za-z_:\t\n\f\r ])`
}

// ---- solver portfolio -----------------------------------------------------------------------------

type reAnswer struct {
	res    string
	model  string
	solver string
	dt     time.Duration
}

// runRegexQuery runs z3-new and cvc5 side by side; the first definite answer wins.
func runRegexQuery(script string, capS int, wantModel bool) reAnswer {
	type be struct {
		name string
		args []string
		pre  string
	}
	z3script := script
	cvcScript := strings.ReplaceAll(script, "(RegEx String)", "RegLan")
	get := ""
	if wantModel {
		get = "(get-value (T))\n"
	}
	backends := []be{
		{"z3-new", []string{"-in", fmt.Sprintf("-T:%d", capS)}, z3script + "(check-sat)\n" + get},
		{"cvc5", []string{"--lang=smt2", "--produce-models", "--strings-exp", fmt.Sprintf("--tlimit=%d", capS*1000)}, "(set-logic QF_SLIA)\n" + cvcScript + "(check-sat)\n" + get},
	}
	ch := make(chan reAnswer, len(backends))
	var cmds []*exec.Cmd
	var mu sync.Mutex
	for _, b := range backends {
		b := b
		go func() {
			cmd := exec.Command(b.name, b.args...)
			cmd.Stdin = strings.NewReader(b.pre)
			mu.Lock()
			cmds = append(cmds, cmd)
			mu.Unlock()
			t0 := time.Now()
			out, _ := cmd.CombinedOutput()
			txt := string(out)
			first := ""
			for _, l := range strings.Split(txt, "\n") {
				l = strings.TrimSpace(l)
				if l == "sat" || l == "unsat" || l == "unknown" || l == "timeout" {
					first = l
					break
				}
			}
			a := reAnswer{res: "unknown", solver: b.name, dt: time.Since(t0)}
			if strings.Contains(txt, "(error") && first != "sat" && first != "unsat" {
				a.res = "unknown"
			} else if first == "sat" || first == "unsat" {
				a.res = first
				if first == "sat" {
					if i := strings.Index(txt, "((T "); i >= 0 {
						a.model = txt[i:]
					}
				}
			}
			ch <- a
		}()
	}
	var got []reAnswer
	for range backends {
		a := <-ch
		got = append(got, a)
		if a.res == "sat" || a.res == "unsat" {
			mu.Lock()
			for _, c := range cmds {
				if c.Process != nil {
					c.Process.Kill()
				}
			}
			mu.Unlock()
			return a
		}
	}
	return got[0]
}

// decodeSMTString turns the solver's string literal ("..." with \u{..} escapes and "" quotes)
// into a Go string, dropping the sentinels.
func decodeSMTString(model string) (string, bool) {
	i := strings.Index(model, "\"")
	j := strings.LastIndex(model, "\"")
	if i < 0 || j <= i {
		return "", false
	}
	s := model[i+1 : j]
	var sb strings.Builder
	for k := 0; k < len(s); k++ {
		if s[k] == '"' && k+1 < len(s) && s[k+1] == '"' {
			sb.WriteByte('"')
			k++
			continue
		}
		if s[k] == '\\' && k+2 < len(s) && s[k+1] == 'u' {
			if s[k+2] == '{' {
				e := strings.IndexByte(s[k:], '}')
				if e > 0 {
					var v int
					fmt.Sscanf(s[k+3:k+e], "%x", &v)
					if v != sBegin && v != sEnd {
						sb.WriteRune(rune(v))
					}
					k += e
					continue
				}
			} else if k+5 < len(s) {
				var v int
				fmt.Sscanf(s[k+2:k+6], "%x", &v)
				if v != sBegin && v != sEnd {
					sb.WriteRune(rune(v))
				}
				k += 5
				continue
			}
		}
		sb.WriteByte(s[k])
	}
	return sb.String(), true
}

func smtDefs(pats map[string]string) (string, error) {
	var sb strings.Builder
	keys := make([]string, 0, len(pats))
	for k := range pats {
		keys = append(keys, k)
	}
	sort.Strings(keys)
	for _, k := range keys {
		s, err := goRegexToSMT(pats[k])
		if err != nil {
			return "", fmt.Errorf("pattern %s: %v", k, err)
		}
		fmt.Fprintf(&sb, "(define-fun %s () (RegEx String) %s)\n", k, s)
	}
	sb.WriteString("(define-fun sigma () (RegEx String) " + reUnion(reRng(0, 0x2FFFF)) + ")\n")
	sb.WriteString("(define-fun anyc () (RegEx String) (re.union sigma (str.to_re " + reCh(sBegin) + ") (str.to_re " + reCh(sEnd) + ")))\n")
	sb.WriteString("(declare-const T String)\n")
	return sb.String(), nil
}

func runRegex(spec *RegexSpec, tier, id string) *RegexResult {
	res := &RegexResult{}
	pats, err := extractPatterns(spec.Package)
	if err != nil {
		res.Inconcl = append(res.Inconcl, err.Error())
		return res
	}
	res.Patterns = pats
	capS := spec.CapS[tier]
	if capS == 0 {
		capS = 60
	}
	placeholder, havePlaceholder := pats["placeholder"]
	delete(pats, "placeholder")
	all := map[string]string{}
	for k, v := range pats {
		all[k] = v
	}
	fams := refFamilies()
	for _, f := range fams {
		all["ref_"+strings.ReplaceAll(f.name, "-", "_")] = f.pat
	}
	for k, v := range refLeft {
		all["left_"+k] = v
	}
	for k, v := range refRight {
		all["right_"+k] = v
	}
	defs, err := smtDefs(all)
	if err != nil {
		res.Inconcl = append(res.Inconcl, err.Error())
		return res
	}
	// cross-validate the translation against Go's regexp on sample strings (native run)
	xv, xerr := crossValidate(pats, defs)
	res.XVal = xv
	if xerr != nil {
		res.Inconcl = append(res.Inconcl, "translation cross-validation: "+xerr.Error())
		return res
	}
	var fullNames []string
	for k := range pats {
		if strings.HasPrefix(k, "full") {
			fullNames = append(fullNames, k)
		}
	}
	sort.Strings(fullNames)
	hasMatch := "(re.union"
	for _, fn := range fullNames {
		hasMatch += " (re.++ (re.* anyc) " + fn + " (re.* anyc))"
	}
	if len(fullNames) == 1 {
		hasMatch = "(re.++ (re.* anyc) " + fullNames[0] + " (re.* anyc))"
	} else {
		hasMatch += ")"
	}
	wrap := func(body string) string {
		return "(re.++ (str.to_re " + reCh(sBegin) + ") " + body + " (str.to_re " + reCh(sEnd) + "))"
	}
	ctx := func(l, fam, r string) string {
		// the text T (with sentinels) is  S? left fam right E?  : "start"/"end" are the sentinels
		parts := []string{}
		if l == "start" {
			parts = append(parts, "(str.to_re "+reCh(sBegin)+")")
		} else {
			parts = append(parts, "(str.to_re "+reCh(sBegin)+")", "left_"+l)
		}
		parts = append(parts, fam)
		if r == "end" {
			parts = append(parts, "(str.to_re "+reCh(sEnd)+")")
		} else {
			parts = append(parts, "right_"+r, "(str.to_re "+reCh(sEnd)+")")
		}
		return reConcat(parts...)
	}
	_ = wrap
	type job struct {
		name, script string
		expectUnsat  bool
		fam          string
	}
	var jobs []job
	lefts := []string{"start", "space", "punct"}
	rights := []string{"end", "space", "punct"}
	for _, f := range fams {
		fam := "ref_" + strings.ReplaceAll(f.name, "-", "_")
		for _, l := range lefts {
			for _, r := range rights {
				s := defs + "(assert (str.in_re T " + ctx(l, fam, r) + "))\n(assert (not (str.in_re T " + hasMatch + ")))\n"
				jobs = append(jobs, job{name: fmt.Sprintf("F1 %s [%s|%s]", f.name, l, r), script: s, expectUnsat: true, fam: f.name})
			}
		}
	}
	// every outer match contains an inner (address) match: a pass that matches changes the text.
	// Decided structurally when the outer pattern is literally  left · address · right  (a run
	// of the top-level concatenation translates to exactly the address pattern's translation);
	// only otherwise is the language inclusion handed to the solvers.
	addrSMT, _ := goRegexToSMT(pats["addr"])
	structural := map[string]bool{}
	for _, fn := range fullNames {
		if re, err := syntax.Parse(pats[fn], syntax.Perl); err == nil && re.Op == syntax.OpConcat {
			for i := 0; i < len(re.Sub) && !structural[fn]; i++ {
				for j := i + 1; j <= len(re.Sub); j++ {
					var xs []string
					bad := false
					for _, sub := range re.Sub[i:j] {
						t, err := reTranslate(sub)
						if err != nil {
							bad = true
						}
						xs = append(xs, t)
					}
					if !bad && reConcat(xs...) == addrSMT {
						structural[fn] = true
						break
					}
				}
			}
		}
		if structural[fn] {
			res.Queries++
			res.Discharged++
			res.Families = append(res.Families, map[string]interface{}{"query": "F1 every " + fn + " match contains an address match", "answer": "holds by construction: the pattern is left·address·right (syntactic check on the regexp/syntax trees)"})
		}
	}
	for _, fn := range fullNames {
		if structural[fn] {
			continue
		}
		s := defs + "(assert (str.in_re T " + fn + "))\n(assert (not (str.in_re T (re.++ (re.* anyc) addr (re.* anyc)))))\n"
		jobs = append(jobs, job{name: "F1 every " + fn + " match contains an address match", script: s, expectUnsat: true, fam: "inner-match"})
	}
	// the placeholder contains no address
	if !havePlaceholder || placeholder == "" {
		res.Inconcl = append(res.Inconcl, "could not find the (non-empty) placeholder constant handed to ReplaceAll")
	} else {
		res.Patterns["placeholder"] = placeholder
		s := defs + "(assert (= T \"" + smtEsc(placeholder) + "\"))\n(assert (str.in_re T (re.++ (re.* anyc) addr (re.* anyc))))\n"
		jobs = append(jobs, job{name: "F1 the placeholder contains no address match", script: s, expectUnsat: true, fam: "placeholder"})
	}

	t0 := time.Now()
	type outT struct {
		j job
		a reAnswer
	}
	outs := make([]outT, len(jobs))
	sem := make(chan struct{}, 8)
	var wg sync.WaitGroup
	for i, j := range jobs {
		wg.Add(1)
		go func(i int, j job) {
			defer wg.Done()
			sem <- struct{}{}
			defer func() { <-sem }()
			outs[i] = outT{j, runRegexQuery(j.script, capS, true)}
		}(i, j)
	}
	wg.Wait()
	res.SolverS = time.Since(t0).Seconds()
	var witnessInputs []string
	for _, o := range outs {
		res.Queries++
		entry := map[string]interface{}{"query": o.j.name, "answer": o.a.res, "solver": o.a.solver, "time_s": o.a.dt.Seconds()}
		switch o.a.res {
		case "unsat":
			res.Discharged++
		case "sat":
			if w, ok := decodeSMTString(o.a.model); ok {
				entry["witness"] = w
				witnessInputs = append(witnessInputs, w)
			} else {
				res.Inconcl = append(res.Inconcl, "sat without a readable witness: "+o.j.name)
			}
		default:
			res.Inconcl = append(res.Inconcl, "not discharged within the cap: "+o.j.name)
		}
		res.Families = append(res.Families, entry)
	}
	// multi-address witness lines from the solver: a1 d a2 (and a1 d a2 d a3), one per family
	// pair and delimiter class
	gen := generateWitnessLines(defs, fams, tier)
	res.Queries += gen.queries
	witnessInputs = append(witnessInputs, gen.lines...)
	for _, in := range gen.inconcl {
		res.Inconcl = append(res.Inconcl, in)
	}
	// run every witness through the real Scrub
	single := map[int]bool{}
	base := len(witnessInputs) - len(gen.lines)
	for _, i := range gen.single {
		single[base+i] = true
	}
	outsN, nerr := nativeScrub(witnessInputs, single, res.Patterns["placeholder"])
	if nerr != nil {
		res.Inconcl = append(res.Inconcl, "native Scrub run failed: "+nerr.Error())
		return res
	}
	res.Witnesses = len(witnessInputs)
	seen := map[string]bool{}
	for i, in := range witnessInputs {
		o := outsN[i]
		if len(res.Samples) < 12 {
			res.Samples = append(res.Samples, map[string]string{"note": "solver-generated line through the real Scrub", "input": in, "output": o.Output})
		}
		if o.Survivor != "" {
			fam := o.Family
			if seen[fam] {
				continue
			}
			seen[fam] = true
			res.Violations = append(res.Violations, &RegexWitness{Kind: "address survives the scrubber", Family: fam, Input: in, Output: o.Output})
		}
	}
	return res
}

type genResult struct {
	lines   []string
	single  []int // indexes of the single-address lines "up <address> zz"
	queries int
	inconcl []string
}

func generateWitnessLines(defs string, fams []refFamily, tier string) genResult {
	var g genResult
	seps := map[string]string{"space": `[\t\n\f\r ]`, "newline": `\n`, "punct": `[,;()=]`}
	sepNames := []string{"space", "newline", "punct"}
	var sepDefs strings.Builder
	for _, n := range sepNames {
		s, _ := goRegexToSMT(seps[n])
		fmt.Fprintf(&sepDefs, "(define-fun sep_%s () (RegEx String) %s)\n", n, s)
	}
	type q struct{ name, script string }
	var qs []q
	pick := fams
	if tier != "thorough" && len(pick) > 6 {
		pick = pick[:6]
	}
	for i, a := range pick {
		for j, b := range pick {
			if tier != "thorough" && (i+j)%2 == 1 {
				continue
			}
			sn := sepNames[(i+j)%len(sepNames)]
			fa, fb := "ref_"+strings.ReplaceAll(a.name, "-", "_"), "ref_"+strings.ReplaceAll(b.name, "-", "_")
			body := reConcat("(str.to_re \"seen \")", fa, "sep_"+sn, fb, "(str.to_re \" ok\")")
			qs = append(qs, q{fmt.Sprintf("W %s %s %s", a.name, sn, b.name), defs + sepDefs.String() + "(assert (str.in_re T " + body + "))\n(assert (<= (str.len T) 120))\n"})
		}
	}
	// three in a row
	for i := 0; i+2 < len(pick); i += 2 {
		fa, fb, fc := "ref_"+strings.ReplaceAll(pick[i].name, "-", "_"), "ref_"+strings.ReplaceAll(pick[i+1].name, "-", "_"), "ref_"+strings.ReplaceAll(pick[i+2].name, "-", "_")
		body := reConcat(fa, "sep_space", fb, "sep_space", fc, "(str.to_re \"\\u{a}\")")
		qs = append(qs, q{"W three in a row", defs + sepDefs.String() + "(assert (str.in_re T " + body + "))\n(assert (<= (str.len T) 160))\n"})
	}
	outs := make([]reAnswer, len(qs))
	sem := make(chan struct{}, 8)
	var wg sync.WaitGroup
	for i := range qs {
		wg.Add(1)
		go func(i int) {
			defer wg.Done()
			sem <- struct{}{}
			defer func() { <-sem }()
			outs[i] = runRegexQuery(qs[i].script, 30, true)
		}(i)
	}
	wg.Wait()
	for i, a := range outs {
		g.queries++
		if a.res == "sat" {
			if w, ok := decodeSMTString(a.model); ok {
				g.lines = append(g.lines, w)
				continue
			}
		}
		g.inconcl = append(g.inconcl, "no witness line generated for "+qs[i].name)
	}
	// single-address lines, several different members per family: the whole address must be
	// replaced - no fragment of it may survive (a match that covers only a prefix of the
	// address satisfies the language-inclusion query F1 but still leaks the rest)
	for _, f := range fams {
		fam := "ref_" + strings.ReplaceAll(f.name, "-", "_")
		prev := []string{}
		for k := 0; k < 3; k++ {
			script := defs + "(assert (str.in_re T " + reConcat("(str.to_re \"up \")", fam, "(str.to_re \" zz\")") + "))\n"
			for _, p := range prev {
				script += "(assert (not (= T \"" + smtEsc(p) + "\")))\n"
			}
			if k > 0 {
				script += fmt.Sprintf("(assert (> (str.len T) %d))\n", len(prev[len(prev)-1]))
			}
			a := runRegexQuery(script, 30, true)
			g.queries++
			if a.res != "sat" {
				break
			}
			w, ok := decodeSMTString(a.model)
			if !ok {
				break
			}
			prev = append(prev, w)
			g.lines = append(g.lines, w)
			g.single = append(g.single, len(g.lines)-1)
		}
		if len(prev) == 0 {
			g.inconcl = append(g.inconcl, "no single-address witness generated for "+f.name)
		}
	}
	// a few fixed shapes the solver's minimal models tend to miss (same address twice, tab
	// separated, one per line in one buffer)
	g.lines = append(g.lines, "a 1.2.3.4 5.6.7.8 b\n", "1.2.3.4\n5.6.7.8\n", "[1::2]:80 [3::4]:443\n", "x=1.2.3.4,y=5.6.7.8\n")
	return g
}

type scrubOut struct {
	Output   string `json:"output"`
	Survivor string `json:"survivor"`
	Family   string `json:"family"`
}

const scrubTestTmpl = `package safelog

import (
	"encoding/json"
	"os"
	"regexp"
	"strings"
	"testing"
)

func TestVerifScrubWitnesses(t *testing.T) {
	b, err := os.ReadFile(os.Getenv("VERIF_SCRUB_IN"))
	if err != nil {
		t.Fatal(err)
	}
	var in struct {
		Lines       []string
		Ref         string
		Families    map[string]string
		Single      []int
		Placeholder string
	}
	if err := json.Unmarshal(b, &in); err != nil {
		t.Fatal(err)
	}
	ref := regexp.MustCompile(in.Ref)
	type out struct {
		Output   string ` + "`json:\"output\"`" + `
		Survivor string ` + "`json:\"survivor\"`" + `
		Family   string ` + "`json:\"family\"`" + `
	}
	var outs []out
	for _, l := range in.Lines {
		o := string(Scrub([]byte(l)))
		r := out{Output: o}
		if m := ref.FindStringSubmatch(o); m != nil {
			r.Survivor = m[2]
			r.Family = "unclassified"
			for name, pat := range in.Families {
				if regexp.MustCompile("^(" + pat + ")$").MatchString(m[2]) {
					r.Family = name
					break
				}
			}
		}
		outs = append(outs, r)
	}
	// single-address lines "up <address> zz": once the placeholder is taken out, nothing of the
	// address alphabet may be left between the two words
	frag := regexp.MustCompile("[0-9A-Fa-f:.\\[\\]]")
	for _, i := range in.Single {
		o := outs[i].Output
		if in.Placeholder != "" {
			o = strings.ReplaceAll(o, in.Placeholder, "")
		}
		if outs[i].Survivor == "" && frag.MatchString(o) {
			outs[i].Survivor = "fragment: " + o
			outs[i].Family = "address only partly replaced"
		}
	}
	ob, _ := json.Marshal(outs)
	os.WriteFile(os.Getenv("VERIF_SCRUB_OUT"), ob, 0644)
}
`

// nativeScrub runs the witness lines through the real safelog.Scrub (go test -overlay).
func nativeScrub(lines []string, single map[int]bool, placeholder string) ([]scrubOut, error) {
	tmp, err := os.MkdirTemp("", "verif-scrub-")
	if err != nil {
		return nil, err
	}
	defer os.RemoveAll(tmp)
	fams := map[string]string{}
	for _, f := range refFamilies() {
		fams[f.name] = f.pat
	}
	var singles []int
	for i := range lines {
		if single[i] {
			singles = append(singles, i)
		}
	}
	in := map[string]interface{}{"Lines": lines, "Ref": allReferenceGo(), "Families": fams, "Single": singles, "Placeholder": placeholder}
	ib, _ := json.Marshal(in)
	inF, outF := filepath.Join(tmp, "in.json"), filepath.Join(tmp, "out.json")
	os.WriteFile(inF, ib, 0644)
	tf := filepath.Join(tmp, "scrub_test.go")
	os.WriteFile(tf, []byte(scrubTestTmpl), 0644)
	ov, _ := json.Marshal(map[string]interface{}{"Replace": map[string]string{repoDir + "/common/safelog/zz_verif_scrub_test.go": tf}})
	ovf := filepath.Join(tmp, "overlay.json")
	os.WriteFile(ovf, ov, 0644)
	cmd := exec.Command("go", "test", "-vet=off", "-count=1", "-run", "^TestVerifScrubWitnesses$", "-overlay", ovf, "./common/safelog")
	cmd.Dir = repoDir
	cmd.Env = append(os.Environ(), "GOFLAGS=-mod=mod", "GOPROXY=off", "GOSUMDB=off", "GOTOOLCHAIN=local", "VERIF_SCRUB_IN="+inF, "VERIF_SCRUB_OUT="+outF)
	outb, err := cmd.CombinedOutput()
	if err != nil {
		return nil, fmt.Errorf("%v: %s", err, tailStr(string(outb), 600))
	}
	ob, err := os.ReadFile(outF)
	if err != nil {
		return nil, err
	}
	var outs []scrubOut
	if err := json.Unmarshal(ob, &outs); err != nil {
		return nil, err
	}
	if len(outs) != len(lines) {
		return nil, fmt.Errorf("native run returned %d results for %d lines", len(outs), len(lines))
	}
	return outs, nil
}

func tailStr(s string, n int) string {
	if len(s) > n {
		return s[len(s)-n:]
	}
	return s
}

// ---- cross-validation of the translation: Go's regexp vs the SMT model on sample strings ------

var xvalSamples = []string{"", "1.2.3.4", "x1.2.3.4", "1.2.3.4x", " 1.2.3.4 ", "1.2.3", "1.2.3.4:55", "1.2.3.4:", "1.2.3.4: ", "a:1.2.3.4",
	"1:2:3:4:c:d:e:f", "[1:2:3:4:c:d:e:f]", "[1::]:58344", "::f", "x::f", "::", ":", "a::", "33:B6:FA:F6:94", "33:B6:FA:F6:94:CA", "2019/05/08 15:37:31 starting",
	"::ffff:255.255.255.255", "[2001:db8:3:4::192.0.2.33]", "(1:2:3:4:c:d:e:f)", "1.2.3.4\n5.6.7.8", "999.999.999.999", "1.2.3.4.5", ".1.2.3.4.", "_1.2.3.4", "1.2.3.4_",
	"fe80::1%eth0", "12345::1", "1::2::3", "a=fingerprint:sha-256 33:B6", "http://1.2.3.4/", "1.2.3.4,5.6.7.8", "[::]", "[::", "::]", "x", "1.2.3.4:123456", "[scrubbed]"}

func smtEsc(s string) string {
	var sb strings.Builder
	for _, r := range s {
		fmt.Fprintf(&sb, "\\u{%x}", r)
	}
	return sb.String()
}

func crossValidate(pats map[string]string, defs string) (int, error) {
	// Go side: a tiny program would need the patterns; regexp/syntax-compiled matching is
	// available right here in the engine process (same Go regexp implementation as the repo's)
	n := 0
	var sb strings.Builder
	sb.WriteString(strings.Replace(defs, "(declare-const T String)\n", "", 1))
	for name, pat := range pats {
		re, err := compileGo(pat)
		if err != nil {
			return 0, err
		}
		for _, s := range xvalSamples {
			want := re.MatchString(s)
			fmt.Fprintf(&sb, "(assert (= (str.in_re \"\\u{2}%s\\u{3}\" (re.++ (re.* anyc) %s (re.* anyc))) %v))\n", smtEsc(s), name, want)
			n++
		}
	}
	sb.WriteString("(check-sat)\n")
	cmd := exec.Command("z3-new", "-in", "-T:60")
	cmd.Stdin = strings.NewReader(sb.String())
	out, _ := cmd.CombinedOutput()
	if strings.TrimSpace(strings.SplitN(string(out), "\n", 2)[0]) != "sat" {
		return n, fmt.Errorf("the SMT translation disagrees with Go's regexp on the sample strings: %s", tailStr(string(out), 300))
	}
	// negative control: flipping one expectation must be refuted
	flip := strings.Replace(sb.String(), "true))\n", "false))\n", 1)
	cmd = exec.Command("z3-new", "-in", "-T:60")
	cmd.Stdin = strings.NewReader(flip)
	out, _ = cmd.CombinedOutput()
	if strings.TrimSpace(strings.SplitN(string(out), "\n", 2)[0]) != "unsat" {
		return n, fmt.Errorf("negative control of the cross-validation was not refuted: %s", tailStr(string(out), 200))
	}
	return n, nil
}

func cmdConsts(args []string) int {
	if len(args) < 1 {
		return 2
	}
	p, err := extractPatterns(args[0])
	if err != nil {
		fmt.Fprintln(os.Stderr, err)
		return 2
	}
	b, _ := json.MarshalIndent(p, "", " ")
	fmt.Println(string(b))
	return 0
}

func compileGo(pat string) (*regexp.Regexp, error) { return regexp.Compile(pat) }
