package main

import (
	"fmt"
	"go/constant"
	"go/token"
	"go/types"
	"math"
	"os"
	"runtime/debug"
	"strings"

	"golang.org/x/tools/go/ssa"
)

type pathEnd struct{ why string }
type goPanic struct{ msg string } // a Go-level panic raised inside verifapi.ExpectPanic

type Machine struct {
	pools        map[*Value][]Value // sync.Pool contents (see the intrinsic)
	prog         *ssa.Program
	sol          *Solver
	pc           []*Term
	prefix       []int
	dpos         int
	trace        []int
	alts         [][]int
	globals      map[*ssa.Global]*Value
	initing      map[*ssa.Package]bool
	vars         []*Term
	varSeen      map[string]bool
	ndCount      map[string]int
	steps        int
	viol         []Violation
	covers       map[string]bool
	depth        int
	maxAlloc     *Term
	lastModel    map[string]uint64
	cacheHits    int
	gs           []*G
	cur          *G
	events       chan gEvent
	locked       map[*Value]bool
	endWhy       string
	pendingPanic string
	schedSteps   int
	harnessPkg   *ssa.Package
	lastPos      token.Pos
	expectExit   int
	errorDepth   int
	schedLog     []string
	sleep        map[string]tkey
	onceDone     map[*Value]bool
	atomicVals   map[*Value]Value
	useSleep     bool

	entered               map[string]int
	unmodelled            map[string]int
	redirUsed             map[string]int
	redirects             map[string]string
	params                map[string]int
	concrete              map[string]uint64 // L1 replay: every nondet value is taken from this model
	spec                  *JobSpec
	counters              map[string]int
	rlocked               map[*Value]int
	wgCount               map[*Value]int
	loopBound             int
	schedBound            int
	asserts               int
	chanSeq               int
	opaqueSeq             int
	expectPanic           int
	preempts              int
	lastNow               *Term
	onceRunning           map[*Value]bool
	symReads              map[string][]symRead
	schedTrace            []int
	fallbackMs            int
	poisonedG             map[*ssa.Global]string
	gWritten              map[*ssa.Global]bool
	initDepth             int
	hb                    *hbState
	raceSites             []token.Pos
	visibleStr            map[string]bool
	atomicAccess          bool
	preemptBound          int
	lastEnabledForPreempt bool
}

type symRead struct{ idx, val *Term }

func (m *Machine) violate(kind, msg string, mod map[string]uint64) {
	fn, pos := "", posStr(m.prog.Fset, m.lastPos)
	if m.cur != nil {
		for i := len(m.cur.stack) - 1; i >= 0; i-- {
			f := m.cur.stack[i]
			file := m.prog.Fset.Position(f.Pos()).Filename
			if strings.HasPrefix(file, repoDir+"/") && !strings.Contains(file, "zz_verif_") && !strings.Contains(file, "/internal/verifapi/") {
				fn = f.String()
				break
			}
		}
		if fn == "" && len(m.cur.stack) > 0 {
			fn = m.cur.stack[len(m.cur.stack)-1].String()
		}
	}
	fn = strings.ReplaceAll(fn, modPath+"/", "")
	if mod != nil && m.concrete == nil {
		// uninterpreted buffer contents read at symbolic indices: name the concrete index
		memo := map[int]uint64{}
		for name, reads := range m.symReads {
			for _, r := range reads {
				if !r.idx.isC && !r.val.isC {
					mod[fmt.Sprintf("|%s[%d]|", name, Eval(r.idx, mod, memo))] = mod[r.val.name]
				}
			}
		}
	}
	m.viol = append(m.viol, Violation{Kind: kind, Msg: msg, Func: fn, Pos: pos, Model: cleanModel(mod),
		Sched: append([]string{}, m.schedLog...), Prefix: append([]int{}, m.trace...), SchedPath: append([]int{}, m.schedTrace...)})
}

func cleanModel(mod map[string]uint64) map[string]uint64 {
	if mod == nil {
		return nil
	}
	out := make(map[string]uint64, len(mod))
	for k, v := range mod {
		out[strings.Trim(k, "|")] = v
	}
	return out
}

func (m *Machine) newVar(name string, w int) *Term {
	k := m.ndCount[name]
	m.ndCount[name] = k + 1
	n := fmt.Sprintf("%s#%d", name, k)
	if m.concrete != nil {
		if w == 0 {
			return Bool(m.concrete[n] != 0)
		}
		return BV(w, m.concrete[n])
	}
	n = "|" + n + "|"
	v := Var(n, w)
	if !m.varSeen[n] {
		m.varSeen[n] = true
		m.vars = append(m.vars, v)
	}
	return v
}

func (m *Machine) addPC(c *Term) {
	if c == True {
		return
	}
	m.pc = append(m.pc, c)
	if m.sol == nil {
		if c == False {
			panic(pathEnd{"infeasible"})
		}
		panic(fmt.Sprintf("concrete replay met a symbolic condition t%d", c.id))
	}
	m.sol.Assert(c)
}

// feasible: is PC ∧ c satisfiable?
func (m *Machine) feasible(c *Term) bool {
	if c == True {
		return true
	}
	if c == False {
		return false
	}
	if m.sol == nil {
		panic(fmt.Sprintf("concrete replay met a symbolic condition t%d", c.id))
	}
	if m.lastModel != nil {
		memo := map[int]uint64{}
		ok := Eval(c, m.lastModel, memo) != 0
		if ok {
			for _, p := range m.pc {
				if Eval(p, m.lastModel, memo) == 0 {
					ok = false
					break
				}
			}
		}
		if ok {
			m.cacheHits++
			return true
		}
	}
	r, mod := m.check(c, true)
	if r == "unknown" {
		panic(pathEnd{"solver unknown"})
	}
	if r == "sat" {
		m.lastModel = mod
	}
	return r == "sat"
}

// check asks the primary (incremental) solver whether PC ∧ c is satisfiable and falls back to
// the one-shot back ends when it gives up.
func (m *Machine) check(c *Term, needModel bool) (string, map[string]uint64) {
	var r string
	if c == nil || c == True {
		r = m.sol.Check()
	} else {
		r = m.sol.Check(c)
	}
	switch r {
	case "sat":
		if needModel {
			return r, m.sol.Model(m.vars)
		}
		return r, nil
	case "unsat":
		return r, nil
	}
	return fallbackSolve(m.pc, c, m.vars, m.fallbackMs)
}

// decide among options (conditions); returns chosen index; adds it to PC
func (m *Machine) decide(conds []*Term) int {
	// constant short-cut
	nTrue := -1
	allConst := true
	for i, c := range conds {
		if !c.isC {
			allConst = false
		} else if c.c != 0 {
			nTrue = i
		}
	}
	if allConst {
		if nTrue < 0 {
			panic(pathEnd{"no option"})
		}
		return nTrue
	}
	if m.dpos < len(m.prefix) {
		ch := m.prefix[m.dpos]
		m.dpos++
		m.trace = append(m.trace, ch)
		m.addPC(conds[ch])
		return ch
	}
	chosen := -1
	for i, c := range conds {
		if c == False {
			continue
		}
		if m.feasible(c) {
			if chosen < 0 {
				chosen = i
			} else {
				alt := append(append([]int{}, m.trace...), i)
				m.alts = append(m.alts, alt)
			}
		}
	}
	if chosen < 0 {
		panic(pathEnd{"infeasible"})
	}
	m.dpos++
	m.trace = append(m.trace, chosen)
	m.addPC(conds[chosen])
	return chosen
}

func (m *Machine) branch(c *Term) bool { return m.decide([]*Term{c, Not(c)}) == 0 }

// runtime check: violation if ¬ok feasible; continue under ok
func (m *Machine) require(ok *Term, kind, msg string) {
	if kind == "assert" {
		m.asserts++
	}
	if ok == True {
		return
	}
	if m.expectExit > 0 && m.expectPanic == 0 && kind == "panic" && strings.HasPrefix(msg, "process exit") {
		if m.decide([]*Term{ok, Not(ok)}) == 1 {
			panic(goPanic{msg})
		}
		return
	}
	if m.expectPanic > 0 && kind == "panic" {
		// inside ExpectPanic a Go panic is an ordinary outcome: fork on it
		if m.decide([]*Term{ok, Not(ok)}) == 1 {
			panic(goPanic{msg})
		}
		return
	}
	if m.dpos < len(m.prefix) { // replaying prefix: already checked on an earlier run
		if ok == False {
			panic(pathEnd{kind + ": " + msg})
		}
		m.addPC(ok)
		return
	}
	if ok == False {
		var mod map[string]uint64
		if m.sol != nil {
			_, mod = m.check(nil, true)
		} else {
			mod = m.concrete
		}
		m.violate(kind, msg, mod)
		panic(pathEnd{kind + ": " + msg})
	}
	if m.feasible(Not(ok)) {
		_, mod := m.check(Not(ok), true)
		m.violate(kind, msg, mod)
		m.lastModel = nil
	}
	m.addPC(ok)
}

// concretize a term to an int by forking over feasible values (cap)
func (m *Machine) concretize(t *Term, cap int, what string) int {
	if t.isC {
		return int(sext64(t.c, t.w))
	}
	if m.dpos < len(m.prefix) {
		v := m.prefix[m.dpos]
		m.dpos++
		m.trace = append(m.trace, v)
		m.addPC(Eq(t, BV(t.w, uint64(v))))
		return v
	}
	// enumerate
	var vals []int
	excl := True
	for len(vals) <= cap {
		r, mod := m.check(excl, true)
		if r != "sat" {
			if r == "unknown" {
				panic(pathEnd{"solver unknown"})
			}
			break
		}
		memo := map[int]uint64{}
		v := Eval(t, mod, memo)
		vals = append(vals, int(sext64(v, t.w)))
		excl = And(excl, Not(Eq(t, BV(t.w, v))))
	}
	if len(vals) > cap {
		panic(pathEnd{"unwind: too many values for " + what})
	}
	if len(vals) == 0 {
		panic(pathEnd{"infeasible"})
	}
	for _, v := range vals[1:] {
		alt := append(append([]int{}, m.trace...), v)
		m.alts = append(m.alts, alt)
	}
	m.dpos++
	m.trace = append(m.trace, vals[0])
	m.addPC(Eq(t, BV(t.w, uint64(vals[0]))))
	return vals[0]
}

// ---------- types ----------
func width(t types.Type) int {
	switch u := t.Underlying().(type) {
	case *types.Basic:
		switch u.Kind() {
		case types.Bool, types.UntypedBool:
			return 0
		case types.Int8, types.Uint8:
			return 8
		case types.Int16, types.Uint16:
			return 16
		case types.Int32, types.Uint32, types.UntypedRune:
			return 32
		case types.Int, types.Uint, types.Int64, types.Uint64, types.Uintptr, types.UntypedInt:
			return 64
		case types.Float64, types.UntypedFloat:
			return 64 // stored as IEEE bits; no arithmetic in the probe
		}
	}
	return -1
}
func isSigned(t types.Type) bool {
	if b, ok := t.Underlying().(*types.Basic); ok {
		return b.Info()&types.IsUnsigned == 0
	}
	return false
}
func isFloat(t types.Type) bool {
	b, ok := t.Underlying().(*types.Basic)
	return ok && b.Info()&types.IsFloat != 0
}
func isByteType(t types.Type) bool {
	b, ok := t.Underlying().(*types.Basic)
	return ok && (b.Kind() == types.Uint8)
}

func (m *Machine) zero(t types.Type) Value {
	switch u := t.Underlying().(type) {
	case *types.Basic:
		if u.Kind() == types.String {
			return strLit("")
		}
		w := width(t)
		if isFloat(t) {
			return FPConst(0)
		}
		if w == 0 {
			return False
		}
		if w > 0 {
			return BV(w, 0)
		}
		if u.Kind() == types.UnsafePointer {
			return NilPtr{}
		}
		panic("zero basic " + t.String())
	case *types.Pointer, *types.Signature, *types.Chan:
		return NilPtr{}
	case *types.Map:
		return NilPtr{}
	case *types.Interface:
		return Iface{}
	case *types.Slice:
		if isByteType(u.Elem()) {
			return Bytes{st: nil, off: BV(64, 0), len: BV(64, 0), cap: BV(64, 0)}
		}
		return Slice{et: u.Elem()}
	case *types.Struct:
		s := make(Struct, u.NumFields())
		for i := range s {
			s[i] = m.zero(u.Field(i).Type())
		}
		return s
	case *types.Array:
		if isByteType(u.Elem()) {
			if u.Len() > 1<<16 { // e.g. make([]byte, 0, 1<<23) lowered to new [1<<23]byte
				return ByteArr{st: newZeroHist(), n: int(u.Len())}
			}
			return ByteArr{st: newFlat(int(u.Len())), n: int(u.Len())}
		}
		a := make(Array, u.Len())
		for i := range a {
			a[i] = m.zero(u.Elem())
		}
		return a
	case *types.Tuple:
		tp := make(Tuple, u.Len())
		for i := range tp {
			tp[i] = m.zero(u.At(i).Type())
		}
		return tp
	}
	panic("zero " + t.String())
}

func copyVal(v Value) Value {
	switch x := v.(type) {
	case Struct:
		c := make(Struct, len(x))
		for i := range x {
			c[i] = copyVal(x[i])
		}
		return c
	case Array:
		c := make(Array, len(x))
		for i := range x {
			c[i] = copyVal(x[i])
		}
		return c
	case ByteArr:
		st := newFlat(x.n)
		for i := 0; i < x.n; i++ {
			st.flat[i] = x.st.Read(BV(64, uint64(i)))
		}
		return ByteArr{st: st, n: x.n}
	}
	return v
}

// store v into slot, in place for aggregates (keeps interior pointers valid)
func storeInto(slot *Value, v Value) {
	switch x := v.(type) {
	case Struct:
		if cur, ok := (*slot).(Struct); ok && len(cur) == len(x) {
			for i := range x {
				storeInto(&cur[i], x[i])
			}
			return
		}
	case Array:
		if cur, ok := (*slot).(Array); ok && len(cur) == len(x) {
			for i := range x {
				storeInto(&cur[i], x[i])
			}
			return
		}
	case ByteArr:
		if cur, ok := (*slot).(ByteArr); ok && cur.n == x.n {
			for i := 0; i < x.n; i++ {
				cur.st.Write(BV(64, uint64(i)), x.st.Read(BV(64, uint64(i))))
			}
			return
		}
	}
	*slot = copyVal(v)
}

// ---------- frames ----------
type Frame struct {
	fn     *ssa.Function
	env    map[ssa.Value]Value
	defers []func()
	free   []Value
}

func (m *Machine) get(fr *Frame, v ssa.Value) Value {
	switch x := v.(type) {
	case *ssa.Const:
		return m.constVal(x)
	case *ssa.Global:
		return SlotPtr{m.globalSlot(x)}
	case *ssa.Function:
		return Closure{fn: x}
	case *ssa.Builtin:
		return x
	case *ssa.FreeVar:
		for i, fv := range fr.fn.FreeVars {
			if fv == x {
				return fr.free[i]
			}
		}
	}
	if r, ok := fr.env[v]; ok {
		return r
	}
	panic(fmt.Sprintf("unbound value %s in %s", v.Name(), fr.fn))
}

func (m *Machine) constVal(c *ssa.Const) Value {
	t := c.Type()
	if c.Value == nil {
		return m.zero(t)
	}
	if b, ok := t.Underlying().(*types.Basic); ok {
		switch {
		case b.Kind() == types.String || b.Kind() == types.UntypedString:
			return strLit(constant.StringVal(c.Value))
		case b.Info()&types.IsBoolean != 0:
			return Bool(constant.BoolVal(c.Value))
		case b.Info()&types.IsFloat != 0:
			f, _ := constant.Float64Val(c.Value)
			return FPConst(math.Float64bits(f))
		case b.Info()&types.IsInteger != 0:
			w := width(t)
			if i, ok := constant.Int64Val(constant.ToInt(c.Value)); ok {
				return BV(w, uint64(i))
			}
			u, _ := constant.Uint64Val(constant.ToInt(c.Value))
			return BV(w, u)
		}
	}
	panic("const " + c.String())
}

// lazy global init: run the package init once (skipping dependency inits), tolerant
func (m *Machine) globalSlot(g *ssa.Global) *Value {
	if why, bad := m.poisonedG[g]; bad {
		if m.initDepth > 0 {
			panic("reads poisoned global " + g.String())
		}
		panic(pathEnd{"poisoned: global " + g.String() + " was not initialised (init aborted: " + why + ")"})
	}
	if s, ok := m.globals[g]; ok {
		return s
	}
	pkg := g.Pkg
	if !m.initing[pkg] {
		m.initing[pkg] = true
		// allocate all globals of the package
		for _, mem := range pkg.Members {
			if gg, ok := mem.(*ssa.Global); ok {
				v := m.zero(gg.Type().(*types.Pointer).Elem())
				m.globals[gg] = &v
			}
		}
		m.runInit(pkg)
		if pkg.Pkg.Path() == "os" { // os's own init functions are not executed: os.Args = the program name
			if ag, ok := pkg.Members["Args"].(*ssa.Global); ok {
				arr := []Value{strLit("prog")}
				var v Value = Slice{arr: &arr, off: 0, len: 1, cap: 1, et: types.Typ[types.String]}
				m.globals[ag] = &v
				delete(m.poisonedG, ag)
			}
		}
	}
	if s, ok := m.globals[g]; ok {
		return s
	}
	v := m.zero(g.Type().(*types.Pointer).Elem())
	m.globals[g] = &v
	return &v
}

func (m *Machine) runInit(pkg *ssa.Package) {
	init := pkg.Func("init")
	if init == nil {
		return
	}
	defer func() {
		if r := recover(); r != nil {
			if pe, ok := r.(pathEnd); ok {
				panic(pe)
			}
			if os.Getenv("VERIF_DEBUG_INIT") != "" {
				fmt.Printf("  [init of %s aborted: %v @ %s]\n%s\n", pkg.Pkg.Path(), r, m.prog.Fset.Position(m.lastPos), trimStack(string(debug.Stack())))
			}
			m.initDepth--
			m.poisonPkg(pkg, fmt.Sprint(r))
			if pkg == m.harnessPkg {
				panic(fmt.Sprintf("init of analysed package aborted: %v", r))
			}
		}
	}()
	m.initDepth++
	m.call(init, nil, true)
	m.initDepth--
}

func posOf(m *Machine, in ssa.Instruction) string { return m.prog.Fset.Position(in.Pos()).String() }

func (m *Machine) call(fn *ssa.Function, args []Value, isInit bool, free ...Value) Value {
	if len(fn.Blocks) == 0 {
		panic("no body: " + fn.String())
	}
	fr := &Frame{fn: fn, env: map[ssa.Value]Value{}, free: free}
	for i, p := range fn.Params {
		fr.env[p] = args[i]
	}
	if g := m.cur; g != nil {
		g.stack = append(g.stack, fn)
		defer func() { g.stack = g.stack[:len(g.stack)-1] }()
	}
	if m.expectPanic > 0 {
		defer func() {
			if r := recover(); r != nil {
				if _, ok := r.(goPanic); ok {
					for i := len(fr.defers) - 1; i >= 0; i-- {
						fr.defers[i]()
					}
				}
				panic(r)
			}
		}()
	}
	var prev *ssa.BasicBlock
	b := fn.Blocks[0]
	for {
		var next *ssa.BasicBlock
		for _, in := range b.Instrs {
			m.steps++
			if in.Pos().IsValid() {
				m.lastPos = in.Pos()
			}
			if m.steps > m.loopBound {
				panic(pathEnd{"step limit"})
			}
			switch x := in.(type) {
			case *ssa.Phi:
				for i, p := range b.Preds {
					if p == prev {
						fr.env[x] = m.get(fr, x.Edges[i])
						break
					}
				}
			case *ssa.If:
				c := m.get(fr, x.Cond).(*Term)
				if m.branch(c) {
					next = b.Succs[0]
				} else {
					next = b.Succs[1]
				}
			case *ssa.Jump:
				next = b.Succs[0]
			case *ssa.Return:
				for i := len(fr.defers) - 1; i >= 0; i-- {
					fr.defers[i]()
				}
				switch len(x.Results) {
				case 0:
					return nil
				case 1:
					return m.get(fr, x.Results[0])
				}
				t := make(Tuple, len(x.Results))
				for i, r := range x.Results {
					t[i] = m.get(fr, r)
				}
				return t
			case *ssa.RunDefers:
				for i := len(fr.defers) - 1; i >= 0; i-- {
					fr.defers[i]()
				}
				fr.defers = nil
			case *ssa.Panic:
				m.require(False, "panic", "explicit panic: "+m.panicText(fr, x))
			default:
				m.exec(fr, in, isInit)
			}
		}
		if next == nil {
			panic("fell off block in " + fn.String())
		}
		prev, b = b, next
	}
}

func (m *Machine) exec(fr *Frame, in ssa.Instruction, isInit bool) {
	switch x := in.(type) {
	case *ssa.Alloc:
		v := m.zero(x.Type().(*types.Pointer).Elem())
		if ba, ok := v.(ByteArr); ok {
			fr.env[x] = ByteArrPtr{st: ba.st, off: BV(64, 0), n: ba.n}
		} else {
			fr.env[x] = SlotPtr{&v}
		}
	case *ssa.Store:
		if m.visibleStr != nil && m.events != nil && m.visibleStr[m.prog.Fset.Position(m.lastPos).String()] {
			m.park(&Op{kind: opAtomic})
		}
		m.store(m.get(fr, x.Addr), m.get(fr, x.Val))
		if g, ok := x.Addr.(*ssa.Global); ok && m.initDepth > 0 {
			if m.gWritten == nil {
				m.gWritten = map[*ssa.Global]bool{}
			}
			m.gWritten[g] = true
		}
	case *ssa.UnOp:
		if m.visibleStr != nil && x.Op == token.MUL && m.events != nil && m.visibleStr[m.prog.Fset.Position(m.lastPos).String()] {
			m.park(&Op{kind: opAtomic})
		}
		fr.env[x] = m.unop(fr, x)
	case *ssa.BinOp:
		fr.env[x] = m.binop(x.Op, m.get(fr, x.X), m.get(fr, x.Y), x.X.Type())
	case *ssa.Convert:
		fr.env[x] = m.convert(m.get(fr, x.X), x.X.Type(), x.Type())
	case *ssa.SliceToArrayPointer:
		// (*[N]byte)(slice): panics when the slice is shorter than N
		n := x.Type().(*types.Pointer).Elem().Underlying().(*types.Array).Len()
		switch b := m.get(fr, x.X).(type) {
		case Bytes:
			m.require(Cmp("bvsle", BV(64, uint64(n)), b.len), "panic", "cannot convert slice to array pointer: slice too short")
			if b.st == nil {
				fr.env[x] = NilPtr{}
			} else {
				fr.env[x] = ByteArrPtr{st: b.st, off: b.off, n: int(n)}
			}
		default:
			panic(fmt.Sprintf("SliceToArrayPointer on %T", b))
		}
	case *ssa.ChangeType:
		fr.env[x] = m.get(fr, x.X)
	case *ssa.Extract:
		fr.env[x] = m.get(fr, x.Tuple).(Tuple)[x.Index]
	case *ssa.FieldAddr:
		p := m.get(fr, x.X)
		sp, ok := p.(SlotPtr)
		if !ok {
			m.require(False, "panic", "nil dereference (FieldAddr)")
		}
		st := (*sp.p).(Struct)
		if ba, ok := st[x.Field].(ByteArr); ok {
			fr.env[x] = ByteArrPtr{st: ba.st, off: BV(64, 0), n: ba.n}
		} else {
			fr.env[x] = SlotPtr{&st[x.Field]}
		}
	case *ssa.Field:
		fr.env[x] = copyVal(m.get(fr, x.X).(Struct)[x.Field])
	case *ssa.IndexAddr:
		fr.env[x] = m.indexAddr(m.get(fr, x.X), m.get(fr, x.Index).(*Term), x.Index.Type())
	case *ssa.Index:
		switch a := m.get(fr, x.X).(type) {
		case String:
			fr.env[x] = m.strIndex(a, m.idx64(m.get(fr, x.Index).(*Term), x.Index.Type()))
		case Array:
			i := m.concretize(m.get(fr, x.Index).(*Term), 64, "array index")
			fr.env[x] = copyVal(a[i])
		case ByteArr:
			fr.env[x] = a.st.Read(m.idx64(m.get(fr, x.Index).(*Term), x.Index.Type()))
		default:
			panic(fmt.Sprintf("Index on %T", a))
		}
	case *ssa.Slice:
		fr.env[x] = m.slice(fr, x)
	case *ssa.MakeSlice:
		ln := m.get(fr, x.Len).(*Term)
		cp := m.get(fr, x.Cap).(*Term)
		ln, cp = m.idx64(ln, x.Len.Type()), m.idx64(cp, x.Cap.Type())
		m.require(And(Cmp("bvsle", BV(64, 0), ln), Cmp("bvsle", ln, cp)), "panic", "makeslice: len out of range")
		et := x.Type().Underlying().(*types.Slice).Elem()
		if isByteType(et) {
			var st *ByteStore
			if cp.isC && cp.c <= 1<<16 {
				st = newFlat(int(cp.c))
			} else {
				st = newZeroHist()
			}
			if m.maxAlloc == nil {
				m.maxAlloc = cp
			} else {
				m.maxAlloc = Ite(Cmp("bvslt", m.maxAlloc, cp), cp, m.maxAlloc)
			}
			fr.env[x] = Bytes{st: st, off: BV(64, 0), len: ln, cap: cp}
		} else {
			n := m.concretize(cp, 64, "make cap")
			l := m.concretize(ln, 64, "make len")
			arr := make([]Value, n)
			for i := range arr {
				arr[i] = m.zero(et)
			}
			fr.env[x] = Slice{arr: &arr, off: 0, len: l, cap: n, et: et}
		}
	case *ssa.MakeInterface:
		fr.env[x] = Iface{t: x.X.Type(), v: m.get(fr, x.X)}
	case *ssa.ChangeInterface:
		fr.env[x] = m.get(fr, x.X)
	case *ssa.TypeAssert:
		fr.env[x] = m.typeAssert(m.get(fr, x.X).(Iface), x)
	case *ssa.MakeClosure:
		c := Closure{fn: x.Fn.(*ssa.Function)}
		for _, b := range x.Bindings {
			c.free = append(c.free, m.get(fr, b))
		}
		fr.env[x] = c
	case *ssa.MakeMap:
		mt := x.Type().Underlying().(*types.Map)
		var v Value = &MapObj{kt: mt.Key(), vt: mt.Elem()}
		fr.env[x] = v
	case *ssa.MapUpdate:
		if _, isNil := m.get(fr, x.Map).(NilPtr); isNil {
			m.require(False, "panic", "assignment to entry in nil map")
		}
		mo := m.get(fr, x.Map).(*MapObj)
		if m.hb != nil {
			m.hbMem(mo, true, false)
		}
		k := m.get(fr, x.Key)
		i := m.mapFind(mo, k)
		if i < 0 {
			mo.keys = append(mo.keys, k)
			mo.vals = append(mo.vals, copyVal(m.get(fr, x.Value)))
		} else {
			mo.vals[i] = copyVal(m.get(fr, x.Value))
		}
	case *ssa.Lookup:
		switch a := m.get(fr, x.X).(type) {
		case String:
			fr.env[x] = m.strIndex(a, m.idx64(m.get(fr, x.Index).(*Term), x.Index.Type()))
		case NilPtr: // lookup in a nil map: the zero value
			mt := x.X.Type().Underlying().(*types.Map)
			v := m.zero(mt.Elem())
			if x.CommaOk {
				fr.env[x] = Tuple{v, False}
			} else {
				fr.env[x] = v
			}
		case *MapObj:
			if m.hb != nil {
				m.hbMem(a, false, false)
			}
			i := m.mapFind(a, m.get(fr, x.Index))
			var v Value
			if i >= 0 {
				v = copyVal(a.vals[i])
			} else {
				v = m.zero(a.vt)
			}
			if x.CommaOk {
				fr.env[x] = Tuple{v, Bool(i >= 0)}
			} else {
				fr.env[x] = v
			}
		default:
			panic(fmt.Sprintf("Lookup on %T", a))
		}
	case *ssa.Call:
		fr.env[x] = m.doCall(fr, x.Common(), x)
	case *ssa.Defer:
		cc := x.Common()
		// evaluate now, run later
		var args []Value
		for _, a := range cc.Args {
			args = append(args, m.get(fr, a))
		}
		var fv Value
		if !cc.IsInvoke() {
			fv = m.get(fr, cc.Value)
		} else {
			fv = m.get(fr, cc.Value)
		}
		fr.defers = append(fr.defers, func() { m.callValue(fv, cc, args) })
	case *ssa.MakeChan:
		n := m.concretize(m.get(fr, x.Size).(*Term), 4096, "chan size")
		fr.env[x] = m.newChan(n)
	case *ssa.Send:
		m.chanSend(m.get(fr, x.Chan), m.get(fr, x.X))
	case *ssa.Select:
		fr.env[x] = m.doSelect(fr, x)
	case *ssa.Go:
		cc := x.Common()
		var args []Value
		for _, a := range cc.Args {
			args = append(args, m.get(fr, a))
		}
		fv := m.get(fr, cc.Value)
		m.spawn(func() { m.callValue(fv, cc, args) }, "g@"+shortPos(m, x.Pos()))
	case *ssa.Range:
		switch c := m.get(fr, x.X).(type) {
		case String:
			fr.env[x] = &strIter{s: c, pos: BV(64, 0)}
		case NilPtr:
			fr.env[x] = &mapIter{m: &MapObj{}}
		case *MapObj:
			if m.hb != nil {
				m.hbMem(c, false, false)
			}
			it := &mapIter{m: c}
			fr.env[x] = it
		default:
			panic(fmt.Sprintf("range over %T", c))
		}
	case *ssa.Next:
		if si, ok := m.get(fr, x.Iter).(*strIter); ok {
			// range over a string: ASCII only (a byte >= 0x80 would need UTF-8 decoding)
			if m.branch(Cmp("bvslt", si.pos, si.s.len)) {
				b := readHist(si.s.h, Bin("bvadd", si.s.off, si.pos))
				if !m.branch(Cmp("bvult", b, BV(8, 0x80))) {
					panic(pathEnd{"unwind: non-ASCII byte in a range over a string (UTF-8 decoding is not modelled)"})
				}
				fr.env[x] = Tuple{True, si.pos, ZExt(b, 32)}
				si.pos = Bin("bvadd", si.pos, BV(64, 1))
			} else {
				fr.env[x] = Tuple{False, BV(64, 0), BV(32, 0)}
			}
			break
		}
		it := m.get(fr, x.Iter).(*mapIter)
		if m.hb != nil {
			m.hbMem(it.m, false, false)
		}
		if it.i < len(it.m.keys) {
			fr.env[x] = Tuple{True, it.m.keys[it.i], copyVal(it.m.vals[it.i])}
			it.i++
		} else {
			fr.env[x] = Tuple{False, nil, nil}
		}
	case *ssa.DebugRef:
	default:
		panic(fmt.Sprintf("unsupported instr %T: %s in %s", in, in, fr.fn))
	}
}

func (m *Machine) idx64(t *Term, ty types.Type) *Term {
	if t.w == 64 {
		return t
	}
	if isSigned(ty) {
		return SExt(t, 64)
	}
	return ZExt(t, 64)
}

func (m *Machine) store(addr, v Value) {
	if m.hb != nil {
		if k := hbKeyOf(addr); k != nil {
			m.hbMem(k, true, m.atomicAccess)
		}
	}
	switch p := addr.(type) {
	case SlotPtr:
		storeInto(p.p, v)
	case BytePtr:
		p.st.Write(p.off, v.(*Term))
	case ByteArrPtr:
		ba := v.(ByteArr)
		for i := 0; i < p.n; i++ {
			p.st.Write(Bin("bvadd", p.off, BV(64, uint64(i))), ba.st.Read(BV(64, uint64(i))))
		}
	case NilPtr:
		m.require(False, "panic", "nil dereference (store)")
	default:
		panic(fmt.Sprintf("store to %T", addr))
	}
}

func (m *Machine) load(addr Value) Value {
	if m.hb != nil {
		if k := hbKeyOf(addr); k != nil {
			m.hbMem(k, false, m.atomicAccess)
		}
	}
	switch p := addr.(type) {
	case SlotPtr:
		return copyVal(*p.p)
	case BytePtr:
		return p.st.Read(p.off)
	case ByteArrPtr:
		st := newFlat(p.n)
		for i := 0; i < p.n; i++ {
			st.flat[i] = p.st.Read(Bin("bvadd", p.off, BV(64, uint64(i))))
		}
		return ByteArr{st: st, n: p.n}
	case NilPtr:
		m.require(False, "panic", "nil dereference (load)")
	}
	panic(fmt.Sprintf("load from %T", addr))
}

func (m *Machine) unop(fr *Frame, x *ssa.UnOp) Value {
	v := m.get(fr, x.X)
	switch x.Op {
	case token.MUL:
		return m.load(v)
	case token.ARROW:
		return m.chanRecv(v, x.CommaOk, x.Type())
	case token.NOT:
		return Not(v.(*Term))
	case token.SUB:
		if isFloat(x.X.Type()) {
			return FPUn("fp.neg", v.(*Term))
		}
		return BVNeg(v.(*Term))
	case token.XOR:
		return BVNot(v.(*Term))
	}
	panic("unop " + x.Op.String())
}

func (m *Machine) strIndex(s String, i *Term) *Term {
	m.require(And(Cmp("bvsle", BV(64, 0), i), Cmp("bvslt", i, s.len)), "panic", "string index out of range")
	return readHist(s.h, Bin("bvadd", s.off, i))
}

func (m *Machine) indexAddr(base Value, idx *Term, ity types.Type) Value {
	i := m.idx64(idx, ity)
	switch b := base.(type) {
	case Bytes:
		m.require(And(Cmp("bvsle", BV(64, 0), i), Cmp("bvslt", i, b.len)), "panic", "index out of range")
		return BytePtr{st: b.st, off: Bin("bvadd", b.off, i)}
	case ByteArrPtr:
		m.require(And(Cmp("bvsle", BV(64, 0), i), Cmp("bvslt", i, BV(64, uint64(b.n)))), "panic", "index out of range")
		return BytePtr{st: b.st, off: Bin("bvadd", b.off, i)}
	case Slice:
		m.require(And(Cmp("bvsle", BV(64, 0), i), Cmp("bvslt", i, BV(64, uint64(b.len)))), "panic", "index out of range")
		k := m.concretize(i, 64, "slice index")
		return m.elemPtr(&(*b.arr)[b.off+k])
	case SlotPtr: // pointer to array
		if ba, ok := (*b.p).(ByteArr); ok {
			return m.indexAddr(ByteArrPtr{st: ba.st, off: BV(64, 0), n: ba.n}, idx, ity)
		}
		a := (*b.p).(Array)
		m.require(And(Cmp("bvsle", BV(64, 0), i), Cmp("bvslt", i, BV(64, uint64(len(a))))), "panic", "index out of range")
		k := m.concretize(i, 64, "array index")
		return m.elemPtr(&a[k])
	case NilPtr:
		m.require(False, "panic", "nil dereference (IndexAddr)")
	}
	panic(fmt.Sprintf("indexAddr on %T", base))
}

func (m *Machine) elemPtr(slot *Value) Value {
	if ba, ok := (*slot).(ByteArr); ok {
		return ByteArrPtr{st: ba.st, off: BV(64, 0), n: ba.n}
	}
	return SlotPtr{slot}
}

func (m *Machine) slice(fr *Frame, x *ssa.Slice) Value {
	base := m.get(fr, x.X)
	opt := func(v ssa.Value) *Term {
		if v == nil {
			return nil
		}
		return m.idx64(m.get(fr, v).(*Term), v.Type())
	}
	lo, hi, mx := opt(x.Low), opt(x.High), opt(x.Max)
	if lo == nil {
		lo = BV(64, 0)
	}
	switch b := base.(type) {
	case Bytes:
		if hi == nil {
			hi = b.len
		}
		c := b.cap
		if mx != nil {
			c = mx
		}
		m.require(And(Cmp("bvsle", BV(64, 0), lo), Cmp("bvsle", lo, hi), Cmp("bvsle", hi, c), Cmp("bvsle", c, b.cap)), "panic", "slice bounds out of range")
		return Bytes{st: b.st, off: Bin("bvadd", b.off, lo), len: Bin("bvsub", hi, lo), cap: Bin("bvsub", c, lo), maxLen: b.maxLen}
	case ByteArrPtr:
		n := BV(64, uint64(b.n))
		if hi == nil {
			hi = n
		}
		m.require(And(Cmp("bvsle", BV(64, 0), lo), Cmp("bvsle", lo, hi), Cmp("bvsle", hi, n)), "panic", "slice bounds out of range")
		return Bytes{st: b.st, off: Bin("bvadd", b.off, lo), len: Bin("bvsub", hi, lo), cap: Bin("bvsub", n, lo), maxLen: b.n}
	case String:
		if hi == nil {
			hi = b.len
		}
		m.require(And(Cmp("bvsle", BV(64, 0), lo), Cmp("bvsle", lo, hi), Cmp("bvsle", hi, b.len)), "panic", "slice bounds out of range")
		return String{h: b.h, off: Bin("bvadd", b.off, lo), len: Bin("bvsub", hi, lo), maxLen: b.maxLen}
	case Slice:
		l, h := m.concretize(lo, 64, "slice lo"), b.len
		if hi != nil {
			h = m.concretize(hi, 64, "slice hi")
		}
		c := b.cap
		if mx != nil {
			c = m.concretize(mx, 64, "slice max")
		}
		if !(0 <= l && l <= h && h <= c && c <= b.cap) {
			m.require(False, "panic", "slice bounds out of range")
		}
		return Slice{arr: b.arr, off: b.off + l, len: h - l, cap: c - l, et: b.et}
	case SlotPtr: // *[N]T
		if ba, ok := (*b.p).(ByteArr); ok {
			n := BV(64, uint64(ba.n))
			if hi == nil {
				hi = n
			}
			m.require(And(Cmp("bvsle", BV(64, 0), lo), Cmp("bvsle", lo, hi), Cmp("bvsle", hi, n)), "panic", "slice bounds out of range")
			return Bytes{st: ba.st, off: lo, len: Bin("bvsub", hi, lo), cap: Bin("bvsub", n, lo), maxLen: ba.n}
		}
		a := (*b.p).(Array)
		arr := []Value(a)
		l, h := m.concretize(lo, 64, "slice lo"), len(a)
		if hi != nil {
			h = m.concretize(hi, 64, "slice hi")
		}
		return Slice{arr: &arr, off: l, len: h - l, cap: len(a) - l}
	}
	panic(fmt.Sprintf("slice of %T", base))
}

func (m *Machine) typeAssert(i Iface, x *ssa.TypeAssert) Value {
	ok := false
	if i.t != nil {
		if types.IsInterface(x.AssertedType) {
			ok = types.Implements(i.t, x.AssertedType.Underlying().(*types.Interface))
		} else {
			ok = types.Identical(i.t, x.AssertedType)
		}
	}
	var res Value
	if ok {
		if types.IsInterface(x.AssertedType) {
			res = i
		} else {
			res = i.v
		}
	} else {
		res = m.zero(x.AssertedType)
	}
	if x.CommaOk {
		return Tuple{res, Bool(ok)}
	}
	if !ok {
		m.require(False, "panic", fmt.Sprintf("interface conversion: %v is not %v", i.t, x.AssertedType))
	}
	return res
}

func (m *Machine) valEq(a, b Value) *Term {
	switch x := a.(type) {
	case *Term:
		return Eq(x, b.(*Term))
	case String:
		return m.strEq(x, b.(String))
	case NilPtr:
		_, ok := b.(NilPtr)
		return Bool(ok)
	case SlotPtr:
		y, ok := b.(SlotPtr)
		return Bool(ok && x.p == y.p)
	case Iface:
		y := b.(Iface)
		if x.t == nil || y.t == nil {
			return Bool(x.t == nil && y.t == nil)
		}
		if !types.Identical(x.t, y.t) {
			return False
		}
		return m.valEq(x.v, y.v)
	case ByteArr:
		y := b.(ByteArr)
		r := True
		for i := 0; i < x.n; i++ {
			r = And(r, Eq(x.st.Read(BV(64, uint64(i))), y.st.Read(BV(64, uint64(i)))))
		}
		return r
	case Struct:
		y := b.(Struct)
		r := True
		for i := range x {
			r = And(r, m.valEq(x[i], y[i]))
		}
		return r
	case *MapObj:
		_, ok := b.(NilPtr)
		return Bool(!ok && a == b)
	case *Opaque:
		return Bool(a == b)
	case ByteArrPtr:
		y, ok := b.(ByteArrPtr)
		return Bool(ok && x.st == y.st)
	case Bytes: // only comparison with nil is legal
		y := b.(Bytes)
		return Bool((x.st == nil) == (y.st == nil) && (x.st == nil || y.st == nil))
	case Slice:
		y := b.(Slice)
		return Bool(x.arr == nil && y.arr == nil)
	case *Chan:
		return Bool(a == b)
	case Closure:
		_, isNil := b.(NilPtr)
		return Bool(!isNil && false)
	}
	panic(fmt.Sprintf("valEq %T", a))
}

func (m *Machine) strEq(a, b String) *Term {
	if a.lit != nil && b.lit != nil && a.off.isC && b.off.isC && a.len.isC && b.len.isC {
		return Bool((*a.lit)[a.off.c:a.off.c+a.len.c] == (*b.lit)[b.off.c:b.off.c+b.len.c])
	}
	var bound int
	if a.len.isC || (a.maxLen > 0 && !(b.len.isC) && (b.maxLen == 0 || a.maxLen <= b.maxLen)) {
		bound = m.boundOf(a.len, a.maxLen)
	} else {
		bound = m.boundOf(b.len, b.maxLen)
	}
	r := Eq(a.len, b.len)
	for i := 0; i < bound; i++ {
		ii := BV(64, uint64(i))
		inr := Cmp("bvult", ii, a.len)
		r = And(r, Or(Not(inr), Eq(readHist(a.h, Bin("bvadd", a.off, ii)), readHist(b.h, Bin("bvadd", b.off, ii)))))
	}
	return r
}

// strLess: a < b in lexicographic byte order.  Built from the back: at position i, a string
// that has ended is smaller iff the other has not; otherwise the first differing byte decides.
func (m *Machine) strLess(a, b String) *Term {
	if a.lit != nil && b.lit != nil && a.off.isC && b.off.isC && a.len.isC && b.len.isC {
		return Bool((*a.lit)[a.off.c:a.off.c+a.len.c] < (*b.lit)[b.off.c:b.off.c+b.len.c])
	}
	var bound int
	if a.len.isC || (a.maxLen > 0 && !(b.len.isC) && (b.maxLen == 0 || a.maxLen <= b.maxLen)) {
		bound = m.boundOf(a.len, a.maxLen)
	} else {
		bound = m.boundOf(b.len, b.maxLen)
	}
	r := Cmp("bvult", a.len, b.len) // the common prefix of `bound` bytes is equal and one string ends there
	for i := bound - 1; i >= 0; i-- {
		ii := BV(64, uint64(i))
		inA := Cmp("bvult", ii, a.len)
		inB := Cmp("bvult", ii, b.len)
		ca := readHist(a.h, Bin("bvadd", a.off, ii))
		cb := readHist(b.h, Bin("bvadd", b.off, ii))
		r = Ite(Not(inA), inB, Ite(Not(inB), False, Ite(Cmp("bvult", ca, cb), True, Ite(Cmp("bvult", cb, ca), False, r))))
	}
	return r
}

func (m *Machine) mapFind(mo *MapObj, k Value) int {
	for i, kk := range mo.keys {
		c := m.valEq(kk, k)
		if c == True {
			return i
		}
		if c == False {
			continue
		}
		if m.branch(c) {
			return i
		}
	}
	return -1
}

func (m *Machine) binop(op token.Token, a, b Value, ty types.Type) Value {
	switch op {
	case token.EQL:
		if isFloat(ty) {
			return FPCmp("fp.eq", a.(*Term), b.(*Term))
		}
		return m.valEq(a, b)
	case token.NEQ:
		if isFloat(ty) {
			return Not(FPCmp("fp.eq", a.(*Term), b.(*Term)))
		}
		return Not(m.valEq(a, b))
	}
	if sa, ok := a.(String); ok {
		sb := b.(String)
		if op == token.ADD {
			return m.concat(sa, sb)
		}
		switch op { // lexicographic byte order, as the language defines it
		case token.LSS:
			return m.strLess(sa, sb)
		case token.GTR:
			return m.strLess(sb, sa)
		case token.LEQ:
			return Not(m.strLess(sb, sa))
		case token.GEQ:
			return Not(m.strLess(sa, sb))
		}
		panic("string binop " + op.String())
	}
	x, y := a.(*Term), b.(*Term)
	signed := isSigned(ty)
	if isFloat(ty) {
		switch op {
		case token.ADD:
			return FPBin("fp.add", x, y)
		case token.SUB:
			return FPBin("fp.sub", x, y)
		case token.MUL:
			return FPBin("fp.mul", x, y)
		case token.QUO:
			return FPBin("fp.div", x, y)
		case token.LSS:
			return FPCmp("fp.lt", x, y)
		case token.LEQ:
			return FPCmp("fp.leq", x, y)
		case token.GTR:
			return FPCmp("fp.lt", y, x)
		case token.GEQ:
			return FPCmp("fp.leq", y, x)
		}
		panic("float binop " + op.String())
	}
	switch op {
	case token.ADD:
		return Bin("bvadd", x, y)
	case token.SUB:
		return Bin("bvsub", x, y)
	case token.MUL:
		return Bin("bvmul", x, y)
	case token.QUO:
		m.require(Not(Eq(y, BV(y.w, 0))), "panic", "integer divide by zero")
		if signed {
			return Bin("bvsdiv", x, y)
		}
		return Bin("bvudiv", x, y)
	case token.REM:
		m.require(Not(Eq(y, BV(y.w, 0))), "panic", "integer divide by zero")
		if signed {
			return Bin("bvsrem", x, y)
		}
		return Bin("bvurem", x, y)
	case token.AND:
		if x.w == 0 {
			return And(x, y)
		}
		return Bin("bvand", x, y)
	case token.OR:
		if x.w == 0 {
			return Or(x, y)
		}
		return Bin("bvor", x, y)
	case token.XOR:
		return Bin("bvxor", x, y)
	case token.AND_NOT:
		return Bin("bvand", x, BVNot(y))
	case token.SHL, token.SHR:
		// y may have different width; Go: count >= width => 0 / sign
		var cnt *Term
		if y.w < x.w {
			cnt = ZExt(y, x.w)
		} else if y.w > x.w {
			big := Not(Eq(Extract(y.w-1, x.w, y), BV(y.w-x.w, 0)))
			lowc := Extract(x.w-1, 0, y)
			cnt = Ite(big, BV(x.w, uint64(x.w)), lowc)
		} else {
			cnt = y
		}
		if op == token.SHL {
			return Bin("bvshl", x, cnt)
		}
		if signed {
			return Bin("bvashr", x, cnt)
		}
		return Bin("bvlshr", x, cnt)
	case token.LSS, token.LEQ, token.GTR, token.GEQ:
		var r *Term
		lt, le := "bvult", "bvule"
		if signed {
			lt, le = "bvslt", "bvsle"
		}
		switch op {
		case token.LSS:
			r = Cmp(lt, x, y)
		case token.LEQ:
			r = Cmp(le, x, y)
		case token.GTR:
			r = Cmp(lt, y, x)
		case token.GEQ:
			r = Cmp(le, y, x)
		}
		return r
	}
	panic("binop " + op.String())
}

func (m *Machine) concat(a, b String) String {
	if a.lit != nil && b.lit != nil && a.off.isC && b.off.isC && a.len.isC && b.len.isC {
		return strLit((*a.lit)[a.off.c:a.off.c+a.len.c] + (*b.lit)[b.off.c:b.off.c+b.len.c])
	}
	st := newZeroHist()
	if a.len.isC && b.len.isC && a.len.c+b.len.c <= 4096 {
		st = newFlat(int(a.len.c + b.len.c))
	}
	st.copyFromHist(BV(64, 0), a.h, a.off, a.len)
	st.copyFromHist(a.len, b.h, b.off, b.len)
	return String{h: st.snapshot(), off: BV(64, 0), len: Bin("bvadd", a.len, b.len), maxLen: addBound(a.maxLen, a.len, b.maxLen, b.len)}
}

func (s *ByteStore) copyFromHist(dstOff *Term, src *histNode, srcOff, n *Term) {
	if n.isC && n.c == 0 {
		return
	}
	if s.flat != nil && n.isC && dstOff.isC {
		for i := uint64(0); i < n.c; i++ {
			s.flat[dstOff.c+i] = readHist(src, Bin("bvadd", srcOff, BV(64, i)))
		}
		return
	}
	s.promote()
	s.h = &histNode{kind: 3, prev: s.h, dstOff: dstOff, src: src, srcOff: srcOff, n: n}
}

func (m *Machine) convert(v Value, from, to types.Type) Value {
	fu, tu := from.Underlying(), to.Underlying()
	if t, ok := v.(*Term); ok {
		if tb, ok := tu.(*types.Basic); ok && tb.Kind() == types.String {
			// string(rune): ASCII only
			if !m.branch(Cmp("bvult", ZExt(t, 64), BV(64, 0x80))) {
				panic(pathEnd{"unwind: string(rune) of a non-ASCII rune (UTF-8 encoding is not modelled)"})
			}
			st := newFlat(1)
			st.flat[0] = Extract(7, 0, t)
			return String{h: st.snapshot(), off: BV(64, 0), len: BV(64, 1), maxLen: 1}
		}
		w := width(to)
		if w <= 0 {
			panic("convert to " + to.String())
		}
		switch {
		case isFloat(from) && isFloat(to):
			return t
		case isFloat(to):
			return FPFromInt(t, isSigned(from))
		case isFloat(from):
			return FPToInt(t, w, isSigned(to))
		}
		if w <= t.w {
			return Extract(w-1, 0, t)
		}
		if isSigned(from) {
			return SExt(t, w)
		}
		return ZExt(t, w)
	}
	switch x := v.(type) {
	case String: // string -> []byte
		if _, ok := tu.(*types.Slice); ok {
			var st *ByteStore
			if x.len.isC && x.len.c <= 1<<16 {
				st = newFlat(int(x.len.c))
			} else {
				st = newZeroHist()
			}
			st.copyFromHist(BV(64, 0), x.h, x.off, x.len)
			return Bytes{st: st, off: BV(64, 0), len: x.len, cap: x.len, maxLen: x.maxLen}
		}
		return x
	case Bytes: // []byte -> string
		if _, ok := fu.(*types.Slice); ok {
			if tb, ok := tu.(*types.Basic); ok && tb.Kind() == types.String {
				if x.st == nil {
					return strLit("")
				}
				return String{h: x.st.snapshot(), off: x.off, len: x.len, maxLen: x.maxLen}
			}
		}
		return x
	}
	return v
}

func describe(v Value) string {
	switch x := v.(type) {
	case *Term:
		if x.isC {
			return fmt.Sprintf("%d", x.c)
		}
		return fmt.Sprintf("t%d", x.id)
	}
	return strings.TrimPrefix(fmt.Sprintf("%T", v), "main.")
}

type strIter struct {
	s   String
	pos *Term
}

type mapIter struct {
	m *MapObj
	i int
}

func (m *Machine) panicText(fr *Frame, x *ssa.Panic) string {
	v := m.get(fr, x.X)
	if i, ok := v.(Iface); ok {
		switch y := i.v.(type) {
		case String:
			if y.lit != nil {
				return *y.lit
			}
		case *Opaque:
			return y.tag
		}
	}
	return "panic"
}

// poisonPkg: the initialiser of a dependency package could not be evaluated completely, so
// its package-level variables may hold wrong (zero) values.  Reading one of them later ends
// the path as inconclusive instead of silently computing with a wrong value.
func (m *Machine) poisonPkg(pkg *ssa.Package, why string) {
	if m.poisonedG == nil {
		m.poisonedG = map[*ssa.Global]string{}
	}
	for name, mem := range pkg.Members {
		f, ok := mem.(*ssa.Function)
		if !ok || !(name == "init" || strings.HasPrefix(name, "init#")) {
			continue
		}
		for _, b := range f.Blocks {
			for _, in := range b.Instrs {
				if st, ok := in.(*ssa.Store); ok {
					if g, ok := st.Addr.(*ssa.Global); ok && g.Pkg == pkg && !m.gWritten[g] {
						m.poisonedG[g] = why
					}
				}
			}
		}
	}
}
