package main

import (
	"fmt"
	"go/token"
	"go/types"
	"path/filepath"
	"runtime/debug"
	"sort"
	"strings"

	"golang.org/x/tools/go/ssa"
)

// Visible operations: a goroutine always parks at one of these; the scheduler picks which
// enabled one is performed next (the choice is a decision of the path prefix).
const (
	opStart = iota
	opSend
	opRecv
	opSelect
	opLock
	opQuiesce
	opUnlock
	opClose
	opRLock
	opRUnlock
	opWgAdd
	opWgWait
	opOnce
	opYield  // time.Sleep, verifapi.Yield, atomic access when atomics are visible
	opAtomic // a sync/atomic operation (scheduling point so that non-atomic sequences can interleave)
)

var opNames = []string{"start", "send", "recv", "select", "lock", "quiesce", "unlock", "close", "rlock", "runlock", "wg.add", "wg.wait", "once", "yield", "atomic"}

type Chan struct {
	id      int
	cap     int
	buf     []Value
	closed  bool
	timer   bool
	ticker  bool // never runs dry: every receive succeeds
	et      types.Type
	bufVC   []vclock // clock of the sender of each buffered value
	closeVC vclock
}

type SelCase struct {
	send bool
	ch   *Chan
	val  Value
}

type Op struct {
	kind       int
	ch         *Chan
	val        Value
	cases      []SelCase
	hasDefault bool
	mu         *Value
	n          int
	// results
	rval Value
	rok  bool
	ridx int
}

type resumeMsg struct{ abort bool }
type gEvent struct {
	g    *G
	what string // parked, finished, pathend, aborted, crash
	why  string
}

type G struct {
	id     int
	name   string
	resume chan resumeMsg
	parked *Op
	done   bool
	daemon bool
	body   func()
	pos    token.Pos
	stack  []*ssa.Function
	fnName string
	vc     vclock
}

type abortPanic struct{}

func (m *Machine) newChan(n int) *Chan {
	m.chanSeq++
	return &Chan{id: m.chanSeq, cap: n}
}

func (m *Machine) spawn(body func(), name string) *G {
	if m.events == nil && m.spec.IgnoreGo {
		m.unmodelled["go statement ignored: "+name]++
		return nil
	}
	if m.events == nil {
		panic(pathEnd{"engine: go statement in a sequential harness (set conc:true) at " + name})
	}
	g := &G{id: len(m.gs), name: name, resume: make(chan resumeMsg), body: body, fnName: name}
	g.parked = &Op{kind: opStart}
	m.gs = append(m.gs, g)
	m.hbSpawn(m.cur, g)
	go func() {
		msg := <-g.resume
		if msg.abort {
			m.events <- gEvent{g, "aborted", ""}
			return
		}
		defer func() {
			if r := recover(); r != nil {
				switch x := r.(type) {
				case pathEnd:
					m.events <- gEvent{g, "pathend", x.why}
				case abortPanic:
					m.events <- gEvent{g, "aborted", ""}
				case solverDied:
					m.events <- gEvent{g, "pathend", "solver unknown: solver process died"}
				default:
					m.events <- gEvent{g, "crash", fmt.Sprintf("%v @ %s\n%s", r, m.prog.Fset.Position(m.lastPos), trimStack(string(debug.Stack())))}
				}
				return
			}
		}()
		g.parked = nil
		body()
		g.done = true
		m.events <- gEvent{g, "finished", ""}
	}()
	return g
}

// park the current goroutine at a visible operation; returns after the scheduler performed it
func (m *Machine) park(op *Op) {
	if m.events == nil {
		m.seqPerform(op)
		return
	}
	g := m.cur
	g.parked = op
	g.pos = m.lastPos
	if len(g.stack) > 0 {
		g.fnName = m.repoFuncOf(g)
	}
	m.events <- gEvent{g, "parked", ""}
	msg := <-g.resume
	if msg.abort {
		panic(abortPanic{})
	}
	g.parked = nil
}

func (m *Machine) repoFuncOf(g *G) string {
	for i := len(g.stack) - 1; i >= 0; i-- {
		f := g.stack[i]
		file := m.prog.Fset.Position(f.Pos()).Filename
		if strings.HasPrefix(file, repoDir+"/") && !strings.Contains(file, "/internal/verifapi/") {
			return strings.ReplaceAll(f.String(), modPath+"/", "")
		}
	}
	if len(g.stack) > 0 {
		return g.stack[len(g.stack)-1].String()
	}
	return "?"
}

// seqPerform: a visible operation in a sequential (single-goroutine) harness is performed on
// the spot; if it would block, nothing can ever unblock it.
func (m *Machine) seqPerform(op *Op) {
	block := func(what string) {
		m.violate("deadlock", "sequential code blocks forever in "+what, m.curModel())
		panic(pathEnd{"deadlock: " + what})
	}
	switch op.kind {
	case opLock:
		if m.locked[op.mu] || m.rlocked[op.mu] > 0 {
			block("Lock of a held mutex")
		}
		m.locked[op.mu] = true
	case opRLock:
		if m.locked[op.mu] {
			block("RLock of a write-held mutex")
		}
		m.rlocked[op.mu]++
	case opUnlock, opRUnlock, opClose, opWgAdd, opYield, opQuiesce, opStart, opOnce, opAtomic:
	case opWgWait:
		if m.wgCount[op.mu] != 0 {
			block("WaitGroup.Wait")
		}
	case opSend:
		if op.ch == nil {
			block("send on nil channel")
		}
		if op.ch.closed {
			m.require(False, "panic", "send on closed channel")
		}
		if len(op.ch.buf) >= op.ch.cap {
			block("send on a full channel")
		}
		op.ch.buf = append(op.ch.buf, op.val)
	case opRecv:
		c := op.ch
		if c == nil {
			block("receive from nil channel")
		}
		if len(c.buf) > 0 {
			op.rval, op.rok = c.buf[0], true
			if !c.ticker {
				c.buf = c.buf[1:]
			}
		} else if c.closed {
			op.rval, op.rok = nil, false
		} else {
			block("receive from an empty channel")
		}
	case opSelect:
		// sequential select: the ready cases are alternatives of a decision
		var ready []int
		for i, sc := range op.cases {
			if sc.ch == nil {
				continue
			}
			if sc.send && (sc.ch.closed || len(sc.ch.buf) < sc.ch.cap) || !sc.send && (len(sc.ch.buf) > 0 || sc.ch.closed) {
				ready = append(ready, i)
			}
		}
		if len(ready) == 0 {
			if op.hasDefault {
				op.ridx = -1
				return
			}
			block("select with no ready case")
		}
		ci := ready[m.decideSched(len(ready))]
		sc := op.cases[ci]
		op.ridx = ci
		if sc.send {
			if sc.ch.closed {
				m.require(False, "panic", "send on closed channel")
			}
			sc.ch.buf = append(sc.ch.buf, sc.val)
		} else if len(sc.ch.buf) > 0 {
			op.rval, op.rok = sc.ch.buf[0], true
			if !sc.ch.ticker {
				sc.ch.buf = sc.ch.buf[1:]
			}
		} else {
			op.rval, op.rok = nil, false
		}
	}
}

func (m *Machine) curModel() map[string]uint64 {
	if m.sol == nil {
		return m.concrete
	}
	_, mod := m.check(nil, true)
	return mod
}

func (m *Machine) chanOf(v Value) *Chan {
	if c, ok := v.(*Chan); ok {
		return c
	}
	return nil // nil channel
}

func (m *Machine) chanSend(cv, v Value) {
	op := &Op{kind: opSend, ch: m.chanOf(cv), val: v}
	m.park(op)
}
func (m *Machine) chanRecv(cv Value, commaOk bool, t types.Type) Value {
	op := &Op{kind: opRecv, ch: m.chanOf(cv)}
	m.park(op)
	v := op.rval
	if v == nil {
		if commaOk {
			v = m.zero(t.(*types.Tuple).At(0).Type())
		} else {
			v = m.zero(t)
		}
	}
	if commaOk {
		return Tuple{v, Bool(op.rok)}
	}
	return v
}
func (m *Machine) chanClose(cv Value) {
	c := m.chanOf(cv)
	m.park(&Op{kind: opClose, ch: c})
	if c == nil || c.closed {
		m.require(False, "panic", "close of nil or closed channel")
	}
	c.closed = true
}

func (m *Machine) doSelect(fr *Frame, x *ssa.Select) Value {
	op := &Op{kind: opSelect, hasDefault: !x.Blocking}
	for _, st := range x.States {
		sc := SelCase{send: st.Dir == types.SendOnly, ch: m.chanOf(m.get(fr, st.Chan))}
		if sc.send {
			sc.val = m.get(fr, st.Send)
		}
		op.cases = append(op.cases, sc)
	}
	m.park(op)
	res := Tuple{BV(64, uint64(int64(op.ridx))), Bool(op.rok)}
	for i, st := range x.States {
		if st.Dir == types.RecvOnly {
			var v Value
			if i == op.ridx && op.rval != nil {
				v = op.rval
			} else {
				v = m.zero(st.Chan.Type().Underlying().(*types.Chan).Elem())
			}
			res = append(res, v)
		}
	}
	return res
}

func (m *Machine) mutexLock(mu *Value) { m.park(&Op{kind: opLock, mu: mu}) }
func (m *Machine) mutexUnlock(mu *Value) {
	m.park(&Op{kind: opUnlock, mu: mu})
	if !m.locked[mu] {
		m.require(False, "panic", "sync: unlock of unlocked mutex")
	}
	delete(m.locked, mu)
}
func (m *Machine) mutexRLock(mu *Value) { m.park(&Op{kind: opRLock, mu: mu}) }
func (m *Machine) mutexRUnlock(mu *Value) {
	m.park(&Op{kind: opRUnlock, mu: mu})
	if m.rlocked[mu] <= 0 {
		m.require(False, "panic", "sync: RUnlock of unlocked RWMutex")
	}
	m.rlocked[mu]--
}
func (m *Machine) wgAdd(wg *Value, n int) {
	m.park(&Op{kind: opWgAdd, mu: wg, n: n})
	m.wgCount[wg] += n
	if m.wgCount[wg] < 0 {
		m.require(False, "panic", "sync: negative WaitGroup counter")
	}
}
func (m *Machine) wgWait(wg *Value) { m.park(&Op{kind: opWgWait, mu: wg}) }

// ---- transitions ----
type trans struct {
	g       *G  // acting goroutine
	partner *G  // rendezvous partner (receiver side if g sends)
	gcase   int // select case index for g (-1 if not select, -2 default)
	pcase   int
}

func recvReadyAlone(c *Chan) bool { return c != nil && (len(c.buf) > 0 || c.closed) }
func sendReadyAlone(c *Chan) bool { return c != nil && (c.closed || len(c.buf) < c.cap) }

func (m *Machine) enabled() []trans {
	var ts []trans
	type waiter struct {
		g    *G
		cidx int
		ch   *Chan
	}
	var senders, receivers []waiter
	for _, g := range m.gs {
		op := g.parked
		if op == nil || g.done {
			continue
		}
		switch op.kind {
		case opSend:
			senders = append(senders, waiter{g, -1, op.ch})
		case opRecv:
			receivers = append(receivers, waiter{g, -1, op.ch})
		case opSelect:
			for i, c := range op.cases {
				if c.send {
					senders = append(senders, waiter{g, i, c.ch})
				} else {
					receivers = append(receivers, waiter{g, i, c.ch})
				}
			}
		}
	}
	for _, g := range m.gs {
		op := g.parked
		if op == nil || g.done {
			continue
		}
		switch op.kind {
		case opStart, opUnlock, opClose, opRUnlock, opWgAdd, opYield, opAtomic:
			ts = append(ts, trans{g: g, gcase: -1})
		case opLock:
			if !m.locked[op.mu] && m.rlocked[op.mu] == 0 {
				ts = append(ts, trans{g: g, gcase: -1})
			}
		case opRLock:
			if !m.locked[op.mu] {
				ts = append(ts, trans{g: g, gcase: -1})
			}
		case opOnce:
			if !m.onceRunning[op.mu] {
				ts = append(ts, trans{g: g, gcase: -1})
			}
		case opWgWait:
			if m.wgCount[op.mu] == 0 {
				ts = append(ts, trans{g: g, gcase: -1})
			}
		case opSend:
			if sendReadyAlone(op.ch) {
				ts = append(ts, trans{g: g, gcase: -1})
			}
		case opRecv:
			if recvReadyAlone(op.ch) {
				ts = append(ts, trans{g: g, gcase: -1})
			}
		case opSelect:
			for i, c := range op.cases {
				if c.send && sendReadyAlone(c.ch) || !c.send && recvReadyAlone(c.ch) {
					ts = append(ts, trans{g: g, gcase: i})
				}
			}
		}
	}
	// rendezvous pairs
	for _, s := range senders {
		if s.ch == nil || s.ch.cap != 0 || s.ch.closed {
			continue
		}
		for _, r := range receivers {
			if r.ch == s.ch && r.g != s.g {
				ts = append(ts, trans{g: s.g, partner: r.g, gcase: s.cidx, pcase: r.cidx})
			}
		}
	}
	// select default: taken when no case is *definitely* ready (buffered data, buffer space, a
	// closed channel).  A partner parked at the other end of an unbuffered channel is only
	// "about to" communicate: a non-blocking poll may come before it has arrived, so the
	// default stays enabled next to the rendezvous (both orders are real executions).
	for _, g := range m.gs {
		op := g.parked
		if op == nil || g.done || op.kind != opSelect || !op.hasDefault {
			continue
		}
		ready := false
		for _, t := range ts {
			if t.g == g && t.partner == nil {
				ready = true
			}
		}
		if !ready {
			ts = append(ts, trans{g: g, gcase: -2})
		}
	}
	if len(ts) == 0 {
		for _, g := range m.gs {
			if g.parked != nil && !g.done && g.parked.kind == opQuiesce {
				ts = append(ts, trans{g: g, gcase: -1})
				break
			}
		}
	}
	return ts
}

func (m *Machine) apply(t trans) []*G {
	g := t.g
	op := g.parked
	sendVal := func(o *Op, ci int) (*Chan, Value) {
		if o.kind == opSelect {
			return o.cases[ci].ch, o.cases[ci].val
		}
		return o.ch, o.val
	}
	if t.partner != nil { // rendezvous: g sends, partner receives
		sc, v := sendVal(op, t.gcase)
		m.hbChanAccess(g, sc, false)
		po := t.partner.parked
		po.rval, po.rok, po.ridx = v, true, t.pcase
		op.ridx = t.gcase
		if m.hb != nil { // a rendezvous orders both sides
			j := vcJoin(g.vc, t.partner.vc)
			g.vc, t.partner.vc = vcCopy(j), vcCopy(j)
			m.hbTick(g)
			m.hbTick(t.partner)
		}
		return []*G{g, t.partner}
	}
	switch op.kind {
	case opLock:
		m.locked[op.mu] = true
		m.hbAcquire(g, op.mu)
		if m.hb != nil {
			if rv, ok := m.hb.readerVC[op.mu]; ok {
				g.vc = vcJoin(g.vc, rv)
			}
		}
	case opRLock:
		m.rlocked[op.mu]++
		m.hbAcquire(g, op.mu)
	case opUnlock:
		m.hbRelease(g, op.mu)
	case opRUnlock:
		if m.hb != nil {
			m.hb.readerVC[op.mu] = vcJoin(m.hb.readerVC[op.mu], g.vc)
			m.hbTick(g)
		}
	case opWgAdd:
		if op.n < 0 {
			m.hbReleaseJoin(g, op.mu)
		}
	case opWgWait:
		m.hbAcquire(g, op.mu)
	case opClose:
		if m.hb != nil && op.ch != nil {
			m.hbChanAccess(g, op.ch, true)
			op.ch.closeVC = vcCopy(g.vc)
			m.hbTick(g)
		}
	case opQuiesce:
		if m.hb != nil { // quiescence is the harness's observation point: ordered after everything
			for _, o := range m.gs {
				g.vc = vcJoin(g.vc, o.vc)
			}
		}
	case opSend, opRecv, opSelect:
		ci := t.gcase
		if ci == -2 {
			op.ridx = -1
			return []*G{g}
		}
		isSend := op.kind == opSend || op.kind == opSelect && op.cases[ci].send
		if isSend {
			c, v := sendVal(op, ci)
			m.hbChanAccess(g, c, false)
			if c.closed {
				m.pendingPanic = "send on closed channel"
			} else {
				c.buf = append(c.buf, v)
				if m.hb != nil {
					c.bufVC = append(c.bufVC, vcCopy(g.vc))
					m.hbTick(g)
				}
			}
			op.ridx = ci
		} else {
			c := op.ch
			if op.kind == opSelect {
				c = op.cases[ci].ch
			}
			if len(c.buf) > 0 {
				op.rval, op.rok = c.buf[0], true
				if m.hb != nil && len(c.bufVC) > 0 {
					g.vc = vcJoin(g.vc, c.bufVC[0])
					if !c.ticker {
						c.bufVC = c.bufVC[1:]
					}
				}
				if !c.ticker {
					c.buf = c.buf[1:]
				}
			} else { // closed
				op.rval, op.rok = nil, false
				if m.hb != nil && c.closeVC != nil {
					g.vc = vcJoin(g.vc, c.closeVC)
				}
			}
			op.ridx = ci
		}
	}
	return []*G{g}
}

// run one goroutine until it parks/finishes; returns false if path ended
func (m *Machine) runG(g *G) (ok bool) {
	m.cur = g
	g.resume <- resumeMsg{}
	ev := <-m.events
	switch ev.what {
	case "parked", "finished":
		return true
	case "pathend":
		m.endWhy = ev.why
		g.done = true
		return false
	case "crash":
		g.done = true
		m.endWhy = "engine crash: " + ev.why
		return false
	}
	return true
}

func (m *Machine) abortAll() {
	for _, g := range m.gs {
		if !g.done && g.parked != nil {
			g.resume <- resumeMsg{abort: true}
			<-m.events
			g.done = true
		}
	}
}

func (m *Machine) blockedList() ([]string, []string) {
	var sigs, descr []string
	for _, g := range m.gs {
		if !g.done && !g.daemon && g.parked != nil {
			sigs = append(sigs, fmt.Sprintf("%s:%s", g.fnName, opNames[g.parked.kind]))
			descr = append(descr, fmt.Sprintf("%s in %s blocked in %s at %s", g.name, g.fnName, opNames[g.parked.kind], shortPos(m, g.pos)))
		}
	}
	sort.Strings(sigs)
	return sigs, descr
}

// runConcurrent executes the harness with the scheduler; returns why the path ended
func (m *Machine) runConcurrent(fn *ssa.Function) string {
	m.events = make(chan gEvent)
	m.onceRunning = map[*Value]bool{}
	if m.spec.HB {
		m.hbInit()
	}
	main := m.spawn(func() { m.call(fn, nil, false) }, "main")
	defer m.abortAll()
	var lastG *G
	for steps := 0; ; steps++ {
		if steps > m.schedBound {
			return "unwind: schedule longer than the step bound"
		}
		if main.done {
			// leak oracle: every non-daemon goroutine must have returned
			sigs, descr := m.blockedList()
			if len(sigs) > 0 {
				m.cur = main
				m.violateSched("leak", "goroutines still blocked when the harness returned: "+strings.Join(sigs, ", "), descr)
				return "leak"
			}
			return "returned"
		}
		ts := m.enabled()
		if len(ts) == 0 {
			sigs, descr := m.blockedList()
			m.cur = main
			m.violateSched("deadlock", "no goroutine can move: "+strings.Join(sigs, ", "), descr)
			return "deadlock"
		}
		// prioritise starts (no decision)
		choice := -1
		for i, t := range ts {
			if t.g.parked.kind == opStart {
				choice = i
				break
			}
		}
		if choice < 0 {
			keys := make([]tkey, len(ts))
			for i, t := range ts {
				keys[i] = m.keyOf(t)
			}
			awake := []int{}
			for i := range ts {
				if _, asleep := m.sleep[keys[i].key]; !asleep {
					awake = append(awake, i)
				}
			}
			if len(awake) == 0 {
				return "sleep-set blocked"
			}
			// optional preemption bound: once the budget is used up, a goroutine that can
			// continue is not preempted any more
			if m.preemptBound > 0 && lastG != nil {
				canContinue := func(i int) bool { return ts[i].g == lastG || ts[i].partner == lastG }
				lastEnabled := false
				for i := range ts {
					if canContinue(i) {
						lastEnabled = true
					}
				}
				if lastEnabled && m.preempts >= m.preemptBound {
					var keep []int
					for _, i := range awake {
						if canContinue(i) {
							keep = append(keep, i)
						}
					}
					if len(keep) == 0 {
						return "preemption bound"
					}
					awake = keep
				}
				m.lastEnabledForPreempt = lastEnabled
			}
			if m.dpos < len(m.prefix) {
				choice = m.prefix[m.dpos]
				if m.concrete != nil && m.dpos >= len(m.prefix) {
					choice = awake[0]
				}
			} else {
				choice = awake[0]
				for _, i := range awake[1:] {
					alt := append(append([]int{}, m.trace...), i)
					m.alts = append(m.alts, alt)
				}
			}
			m.dpos++
			m.trace = append(m.trace, choice)
			m.schedTrace = append(m.schedTrace, choice)
			// new sleep set: (sleep ∪ earlier awake siblings) filtered by independence with the chosen one
			ns := map[string]tkey{}
			if m.useSleep {
				for k, v := range m.sleep {
					if independent(v, keys[choice]) {
						ns[k] = v
					}
				}
				for _, i := range awake {
					if i == choice {
						break
					}
					if independent(keys[i], keys[choice]) {
						ns[keys[i].key] = keys[i]
					}
				}
			}
			m.sleep = ns
		}
		m.schedSteps++
		if m.preemptBound > 0 && lastG != nil && m.lastEnabledForPreempt && ts[choice].g != lastG && ts[choice].partner != lastG && ts[choice].g.parked.kind != opStart {
			m.preempts++
		}
		m.lastEnabledForPreempt = false
		{
			t := ts[choice]
			d := fmt.Sprintf("%s:%s@%s", t.g.name, opNames[t.g.parked.kind], shortPos(m, t.g.pos))
			if t.partner != nil {
				d += fmt.Sprintf(" <-> %s:%s@%s", t.partner.name, opNames[t.partner.parked.kind], shortPos(m, t.partner.pos))
			}
			if t.gcase != -1 {
				d += fmt.Sprintf(" case %d", t.gcase)
			}
			m.schedLog = append(m.schedLog, d)
		}
		lastG = ts[choice].g
		_ = lastG
		gs := m.apply(ts[choice])
		for _, g := range gs {
			if m.pendingPanic != "" {
				m.cur = g
				m.violateSched("panic", m.pendingPanic, nil)
				m.pendingPanic = ""
				return "panic"
			}
			if !m.runG(g) {
				return m.endWhy
			}
		}
	}
}

func (m *Machine) violateSched(kind, msg string, descr []string) {
	mod := m.curModel()
	m.violate(kind, msg, mod)
	v := &m.viol[len(m.viol)-1]
	for _, d := range descr {
		v.Sched = append(v.Sched, "BLOCKED: "+d)
	}
}

// schedule-like decision with n always-feasible alternatives (no solver involved)
func (m *Machine) decideSched(n int) int {
	if n == 1 {
		return 0
	}
	if m.dpos < len(m.prefix) {
		ch := m.prefix[m.dpos]
		m.dpos++
		m.trace = append(m.trace, ch)
		m.schedTrace = append(m.schedTrace, ch)
		return ch
	}
	for i := 1; i < n; i++ {
		alt := append(append([]int{}, m.trace...), i)
		m.alts = append(m.alts, alt)
	}
	m.dpos++
	m.trace = append(m.trace, 0)
	m.schedTrace = append(m.schedTrace, 0)
	return 0
}

// ---- redirects: callee name -> harness function name ----
func (m *Machine) redirect(name string, args []Value) (Value, bool) {
	h, ok := m.redirects[name]
	if !ok {
		return nil, false
	}
	m.redirUsed[name]++
	fn := m.harnessPkg.Func(h)
	if fn == nil {
		panic("redirect target missing: " + h)
	}
	return m.call(fn, args, false), true
}

func shortPos(m *Machine, p token.Pos) string {
	if !p.IsValid() {
		return "?"
	}
	ps := m.prog.Fset.Position(p)
	return fmt.Sprintf("%s:%d", filepath.Base(ps.Filename), ps.Line)
}

type tkey struct {
	key  string
	gs   [2]int
	objs []string
}

func (m *Machine) keyOf(t trans) tkey {
	k := tkey{gs: [2]int{t.g.id, -1}}
	op := t.g.parked
	addCh := func(c *Chan) {
		if c != nil {
			k.objs = append(k.objs, fmt.Sprintf("c%d", c.id))
		}
	}
	opObjs := func(o *Op, g *G) {
		switch o.kind {
		case opLock, opUnlock, opRLock, opRUnlock, opWgAdd, opWgWait, opOnce:
			k.objs = append(k.objs, fmt.Sprintf("m%p", o.mu))
		case opAtomic:
			// atomics guard plain memory that other goroutines may touch between their own
			// visible operations: treat as dependent with everything (no reduction)
			k.objs = append(k.objs, "*")
		case opYield:
			k.objs = append(k.objs, fmt.Sprintf("y%d", g.id))
		case opSend, opRecv, opClose:
			addCh(o.ch)
		case opSelect:
			for _, c := range o.cases {
				addCh(c.ch)
			}
		case opStart:
			k.objs = append(k.objs, fmt.Sprintf("start%d", g.id))
		case opQuiesce:
			k.objs = append(k.objs, "*")
		}
	}
	opObjs(op, t.g)
	pid := -1
	if t.partner != nil {
		pid = t.partner.id
		k.gs[1] = pid
		opObjs(t.partner.parked, t.partner)
	}
	k.key = fmt.Sprintf("%d/%d/%d/%d/%d/%v", t.g.id, op.kind, t.gcase, pid, t.pcase, k.objs)
	return k
}

func independent(a, b tkey) bool {
	for _, x := range a.gs {
		for _, y := range b.gs {
			if x >= 0 && x == y {
				return false
			}
		}
	}
	for _, x := range a.objs {
		for _, y := range b.objs {
			if x == y || x == "*" || y == "*" {
				return false
			}
		}
	}
	return true
}
