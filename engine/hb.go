package main

// Happens-before race monitor (DESIGN.md §2.8): vector clocks on goroutines, channels,
// mutexes, Once, WaitGroup, atomics and `go`; every load/store of a heap slot, map or byte
// store executed by the interpreter is checked against the last write / the reads since.
// It serves two purposes:
//   * C20: a pair of conflicting accesses that some explored execution leaves unordered is a
//     data race of the repository's code (reported when at least one site is in /repo);
//   * the sleep-set reduction is only sound for data-race-free code, so a race found in a
//     scenario triggers a second exploration in which the racing instructions are themselves
//     scheduling points ("race-directed refinement").

import (
	"fmt"
	"go/token"
	"sort"
	"strings"
)

type vclock []int

func (v vclock) get(i int) int {
	if i < len(v) {
		return v[i]
	}
	return 0
}
func vcJoin(a, b vclock) vclock {
	n := len(a)
	if len(b) > n {
		n = len(b)
	}
	out := make(vclock, n)
	for i := range out {
		x, y := a.get(i), b.get(i)
		if x > y {
			out[i] = x
		} else {
			out[i] = y
		}
	}
	return out
}
func vcCopy(a vclock) vclock { return append(vclock{}, a...) }

type hbAccess struct {
	gid    int
	clock  int
	atomic bool
	pos    token.Pos
	fn     string
	write  bool
}

type hbShadow struct {
	w     *hbAccess
	reads []hbAccess
}

type hbState struct {
	shadow   map[interface{}]*hbShadow
	syncVC   map[interface{}]vclock // mutex / once / waitgroup / atomic address -> released clock
	readerVC map[interface{}]vclock // RWMutex: clocks released by readers
	races    map[string]bool
}

func (m *Machine) hbInit() {
	m.hb = &hbState{shadow: map[interface{}]*hbShadow{}, syncVC: map[interface{}]vclock{}, readerVC: map[interface{}]vclock{}, races: map[string]bool{}}
}

func (m *Machine) hbTick(g *G) {
	for len(g.vc) <= g.id {
		g.vc = append(g.vc, 0)
	}
	g.vc[g.id]++
}

func (m *Machine) hbSpawn(parent, child *G) {
	if m.hb == nil {
		return
	}
	if parent != nil {
		child.vc = vcCopy(parent.vc)
		m.hbTick(parent)
	}
	m.hbTick(child)
}

func (m *Machine) hbAcquire(g *G, key interface{}) {
	if m.hb == nil || g == nil {
		return
	}
	if vc, ok := m.hb.syncVC[key]; ok {
		g.vc = vcJoin(g.vc, vc)
	}
}
func (m *Machine) hbRelease(g *G, key interface{}) {
	if m.hb == nil || g == nil {
		return
	}
	m.hb.syncVC[key] = vcCopy(g.vc)
	m.hbTick(g)
}
func (m *Machine) hbReleaseJoin(g *G, key interface{}) {
	if m.hb == nil || g == nil {
		return
	}
	m.hb.syncVC[key] = vcJoin(m.hb.syncVC[key], g.vc)
	m.hbTick(g)
}

func (m *Machine) siteInRepo(pos token.Pos) bool {
	if !pos.IsValid() {
		return false
	}
	f := m.prog.Fset.Position(pos).Filename
	return strings.HasPrefix(f, repoDir+"/") && !strings.Contains(f, "zz_verif_") && !strings.Contains(f, "/internal/verifapi/")
}

func (m *Machine) curFn() string {
	if m.cur != nil && len(m.cur.stack) > 0 {
		return strings.ReplaceAll(m.cur.stack[len(m.cur.stack)-1].String(), modPath+"/", "")
	}
	return "?"
}

// hbMem records an access and reports a race with an unordered conflicting earlier access.
func (m *Machine) hbMem(key interface{}, write, atomic bool) {
	if m.hb == nil || m.events == nil || m.cur == nil || m.initDepth > 0 {
		return
	}
	g := m.cur
	sh := m.hb.shadow[key]
	if sh == nil {
		sh = &hbShadow{}
		m.hb.shadow[key] = sh
	}
	cur := hbAccess{gid: g.id, clock: g.vc.get(g.id), atomic: atomic, pos: m.lastPos, fn: m.curFn(), write: write}
	conflict := func(o *hbAccess) {
		if o.gid == g.id || o.clock <= g.vc.get(o.gid) {
			return // same goroutine, or ordered before us
		}
		if o.atomic && atomic {
			return
		}
		if !m.siteInRepo(o.pos) && !m.siteInRepo(cur.pos) {
			return // harness-only memory
		}
		a, b := *o, cur
		k := []string{fmt.Sprintf("%s@%s", a.fn, posStr(m.prog.Fset, a.pos)), fmt.Sprintf("%s@%s", b.fn, posStr(m.prog.Fset, b.pos))}
		sort.Strings(k)
		key := strings.Join(k, " | ")
		if m.hb.races[key] {
			return
		}
		m.hb.races[key] = true
		kind := func(x hbAccess) string {
			s := "read"
			if x.write {
				s = "write"
			}
			if x.atomic {
				s = "atomic " + s
			}
			return s
		}
		ends := []string{kind(a) + " in " + a.fn, kind(b) + " in " + b.fn}
		sort.Strings(ends)
		fns := []string{a.fn, b.fn}
		sort.Strings(fns)
		m.raceSites = append(m.raceSites, a.pos, b.pos)
		mod := m.curModel()
		m.violate("race", "conflicting accesses not ordered by synchronisation: "+ends[0]+" / "+ends[1], mod)
		v := &m.viol[len(m.viol)-1]
		v.Func = fns[0] + " / " + fns[1]
		v.Sched = append(v.Sched, "RACE: "+kind(a)+" at "+posStr(m.prog.Fset, a.pos)+" ("+a.fn+")", "RACE: "+kind(b)+" at "+posStr(m.prog.Fset, b.pos)+" ("+b.fn+")")
	}
	if sh.w != nil {
		conflict(sh.w)
	}
	if write {
		for i := range sh.reads {
			conflict(&sh.reads[i])
		}
		sh.w = &cur
		sh.reads = sh.reads[:0]
	} else {
		for i := range sh.reads {
			if sh.reads[i].gid == g.id {
				sh.reads[i] = cur
				return
			}
		}
		sh.reads = append(sh.reads, cur)
	}
}

// The Go race detector treats close(ch) as a write and a send on ch as a read of the channel
// itself (runtime.closechan / chansend), so a send that is not ordered with the close is a race.
type hbChanKey struct{ c *Chan }

func (m *Machine) hbChanAccess(g *G, c *Chan, write bool) {
	if m.hb == nil || c == nil || c.timer {
		return
	}
	cur, pos := m.cur, m.lastPos
	m.cur, m.lastPos = g, g.pos
	m.hbMem(hbChanKey{c}, write, false)
	m.cur, m.lastPos = cur, pos
}

func hbKeyOf(addr Value) interface{} {
	switch p := addr.(type) {
	case SlotPtr:
		return p.p
	case BytePtr:
		return p.st
	case ByteArrPtr:
		return p.st
	}
	return nil
}
