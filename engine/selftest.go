package main

// Differential self-test of the interpreter (DESIGN.md §3): every VerifSelf_* function of
// /verif/checks/selftest.json is executed (a) by the interpreter in concrete mode and
// (b) natively (go test -overlay); both must return the same checksum.  The functions push
// the repository's own test inputs through the real code, which is the "run the existing
// tests through the symbolic interpreter" practice.

import (
	"encoding/json"
	"fmt"
	"os"
	"os/exec"
	"path/filepath"
	"runtime/debug"
	"strings"

	"golang.org/x/tools/go/ssa"
)

type selfSpec struct {
	Groups []struct {
		Pkg   string   `json:"pkg"`
		Files []string `json:"files"`
		Fns   []string `json:"fns"`
	} `json:"groups"`
}

const selfTestTmpl = `package %s

import (
	"fmt"
	"testing"
)

func TestVerifSelf(t *testing.T) {
%s}
`

func cmdSelftest(args []string) int {
	root := verifRoot()
	b, err := os.ReadFile(filepath.Join(root, "checks", "selftest.json"))
	if err != nil {
		fmt.Println("selftest: no checks/selftest.json; nothing to do")
		return 0
	}
	var ss selfSpec
	if err := json.Unmarshal(b, &ss); err != nil {
		fmt.Println("selftest:", err)
		return 2
	}
	bad := 0
	total := 0
	for _, g := range ss.Groups {
		spec := &JobSpec{Name: "selftest", Pkg: g.Pkg, Files: g.Files}
		ld, err := loadJob(spec, nil)
		if err != nil {
			fmt.Println("selftest: load", g.Pkg, err)
			return 2
		}
		interp := map[string]uint64{}
		for _, fnName := range g.Fns {
			fn := ld.pkg.Func(fnName)
			if fn == nil {
				fmt.Println("selftest: missing function", fnName)
				return 2
			}
			v, err := runConcreteFn(ld, spec, fn)
			if err != nil {
				fmt.Printf("selftest: interpreter failed on %s: %v\n", fnName, err)
				bad++
				continue
			}
			interp[fnName] = v
		}
		native, err := nativeSelf(g.Pkg, g.Files, g.Fns)
		if err != nil {
			fmt.Println("selftest: native run failed:", err)
			return 2
		}
		for _, fnName := range g.Fns {
			total++
			iv, ok := interp[fnName]
			if !ok {
				continue
			}
			if iv != native[fnName] {
				fmt.Printf("selftest: MISMATCH %s %s: interpreter %d, native %d\n", g.Pkg, fnName, iv, native[fnName])
				bad++
			}
		}
	}
	if bad > 0 {
		fmt.Printf("selftest: %d of %d functions disagree\n", bad, total)
		return 1
	}
	fmt.Printf("selftest: interpreter and native execution agree on %d functions\n", total)
	return 0
}

func runConcreteFn(ld *loaded, spec *JobSpec, fn *ssa.Function) (v uint64, err error) {
	m := newMachine(ld, spec, nil, nil, map[string]int{}, map[string]uint64{})
	defer func() {
		if r := recover(); r != nil {
			err = fmt.Errorf("%v @ %s", r, m.prog.Fset.Position(m.lastPos))
			if os.Getenv("VERIF_DEBUG_INIT") != "" {
				err = fmt.Errorf("%v\n%s", err, trimStack(string(debug.Stack())))
			}
		}
	}()
	m.cur = &G{}
	r := m.call(fn, nil, false)
	t, ok := r.(*Term)
	if !ok || !t.isC {
		return 0, fmt.Errorf("result is not a concrete integer")
	}
	return t.c, nil
}

func nativeSelf(pkg string, files, fns []string) (map[string]uint64, error) {
	root := verifRoot()
	tmp, err := os.MkdirTemp("", "verif-self-")
	if err != nil {
		return nil, err
	}
	defer os.RemoveAll(tmp)
	pkgRel := strings.TrimPrefix(pkg, "./")
	repl := map[string]string{repoDir + "/internal/verifapi/api.go": filepath.Join(root, "api", "verifapi.go")}
	for i, f := range files {
		repl[fmt.Sprintf("%s/%s/zz_verif_%d_%s", repoDir, pkgRel, i, filepath.Base(f))] = filepath.Join(root, f)
	}
	pkgName, err := packageName(filepath.Join(root, files[0]))
	if err != nil {
		return nil, err
	}
	var body strings.Builder
	for _, fn := range fns {
		fmt.Fprintf(&body, "\tfmt.Printf(\"VERIF-SELF %s %%d\\n\", uint64(%s()))\n", fn, fn)
	}
	tf := filepath.Join(tmp, "self_test.go")
	os.WriteFile(tf, []byte(fmt.Sprintf(selfTestTmpl, pkgName, body.String())), 0644)
	repl[fmt.Sprintf("%s/%s/zz_verif_self_test.go", repoDir, pkgRel)] = tf
	ovb, _ := json.Marshal(map[string]interface{}{"Replace": repl})
	ovf := filepath.Join(tmp, "overlay.json")
	os.WriteFile(ovf, ovb, 0644)
	cmd := exec.Command("go", "test", "-ldflags=-checklinkname=0", "-vet=off", "-count=1", "-v", "-run", "^TestVerifSelf$", "-overlay", ovf, pkg)
	cmd.Dir = repoDir
	cmd.Env = append(os.Environ(), "GOFLAGS=-mod=mod", "GOPROXY=off", "GOSUMDB=off", "GOTOOLCHAIN=local")
	out, err := cmd.CombinedOutput()
	if err != nil {
		return nil, fmt.Errorf("%v: %s", err, tailStr(string(out), 800))
	}
	res := map[string]uint64{}
	for _, l := range strings.Split(string(out), "\n") {
		var name string
		var v uint64
		if n, _ := fmt.Sscanf(strings.TrimSpace(l), "VERIF-SELF %s %d", &name, &v); n == 2 {
			res[name] = v
		}
	}
	return res, nil
}
