package main

import (
	"fmt"
	"math"
	"math/bits"
	"sort"
	"strconv"
	"strings"
	"sync"
	"sync/atomic"
)

// Sorts: width 0 = Bool, otherwise BV(width<=64).
type Term struct {
	id    int
	op    string
	w     int // 0 = bool
	args  []*Term
	c     uint64 // const value (masked) / extract hi<<8|lo / extend amount
	name  string
	isC   bool
	fp    bool // sort Float64 (w == 64)
	depth int
}

// The term table is shared by all workers (terms are immutable once published); it is
// sharded to keep lock contention low.
const termShards = 1024

type termKey struct {
	op         string
	w          int
	c          uint64
	name       string
	n          int
	a0, a1, a2 int
	rest       string // ids of the arguments beyond the third
}

type termShard struct {
	mu sync.RWMutex
	m  map[termKey]*Term
	_  [40]byte
}

var termTab = func() *[termShards]termShard {
	var t [termShards]termShard
	for i := range t {
		t[i].m = map[termKey]*Term{}
	}
	return &t
}()
var termSeq int64

func mask(w int) uint64 {
	if w >= 64 {
		return ^uint64(0)
	}
	return (uint64(1) << uint(w)) - 1
}

func mk(op string, w int, c uint64, name string, args ...*Term) *Term {
	k := termKey{op: op, w: w, c: c, name: name, n: len(args)}
	h := uint64(len(op))*1099511628211 ^ uint64(w)*31 ^ c*0x9e3779b97f4a7c15
	if len(op) > 2 {
		h ^= uint64(op[2]) << 20
	}
	for i, a := range args {
		switch i {
		case 0:
			k.a0 = a.id
		case 1:
			k.a1 = a.id
		case 2:
			k.a2 = a.id
		default:
			k.rest += strconv.Itoa(a.id) + ","
		}
		h = (h ^ uint64(a.id)) * 1099511628211
	}
	if name != "" {
		for i := 0; i < len(name); i++ {
			h = (h ^ uint64(name[i])) * 1099511628211
		}
	}
	sh := &termTab[(h^(h>>29))%termShards]
	sh.mu.RLock()
	t, ok := sh.m[k]
	sh.mu.RUnlock()
	if ok {
		return t
	}
	sh.mu.Lock()
	defer sh.mu.Unlock()
	if t, ok := sh.m[k]; ok {
		return t
	}
	t = &Term{id: int(atomic.AddInt64(&termSeq, 1)), op: op, w: w, args: args, c: c, name: name}
	t.isC = op == "const" || op == "true" || op == "false" || op == "fpconst"
	t.fp = strings.HasPrefix(op, "fp") && op != "fp.to_ubv" && op != "fp.to_sbv" && op != "fp.lt" && op != "fp.leq" && op != "fp.eq"
	for _, a := range args {
		if a.depth+1 > t.depth {
			t.depth = a.depth + 1
		}
	}
	sh.m[k] = t
	return t
}

// small constants are looked up without touching the shared table
var smallConst [65][]*Term

func init() {
	for _, w := range []int{1, 8, 16, 32, 64} {
		n := 1 << 12
		if w < 12 {
			n = 1 << uint(w)
		}
		smallConst[w] = make([]*Term, n)
		for v := 0; v < n; v++ {
			smallConst[w][v] = mk("const", w, uint64(v), "")
		}
	}
}

func BV(w int, v uint64) *Term {
	v &= mask(w)
	if sc := smallConst[w]; sc != nil && v < uint64(len(sc)) {
		return sc[v]
	}
	return mk("const", w, v, "")
}

var True = mk("true", 0, 1, "")
var False = mk("false", 0, 0, "")

func Bool(b bool) *Term {
	if b {
		return True
	}
	return False
}
func Var(name string, w int) *Term { return mk("var", w, 0, name) }

func sext64(v uint64, w int) int64 {
	if w >= 64 {
		return int64(v)
	}
	sh := uint(64 - w)
	return int64(v<<sh) >> sh
}

func Not(a *Term) *Term {
	if a.isC {
		return Bool(a.c == 0)
	}
	if a.op == "not" {
		return a.args[0]
	}
	return mk("not", 0, 0, "", a)
}
func And(xs ...*Term) *Term {
	var out []*Term
	seen := map[int]bool{}
	for _, x := range xs {
		if x.isC {
			if x.c == 0 {
				return False
			}
			continue
		}
		if x.op == "and" {
			for _, y := range x.args {
				if !seen[y.id] {
					seen[y.id] = true
					out = append(out, y)
				}
			}
			continue
		}
		if !seen[x.id] {
			seen[x.id] = true
			out = append(out, x)
		}
	}
	for _, x := range out {
		if x.op == "not" && seen[x.args[0].id] {
			return False
		}
	}
	if len(out) == 0 {
		return True
	}
	if len(out) == 1 {
		return out[0]
	}
	sort.Slice(out, func(i, j int) bool { return out[i].id < out[j].id })
	return mk("and", 0, 0, "", out...)
}
func Or(xs ...*Term) *Term {
	ns := make([]*Term, len(xs))
	for i, x := range xs {
		ns[i] = Not(x)
	}
	return Not(And(ns...))
}
func Ite(c, a, b *Term) *Term {
	if c.isC {
		if c.c != 0 {
			return a
		}
		return b
	}
	if a == b {
		return a
	}
	if a.w == 0 {
		if a.isC && b.isC {
			if a.c != 0 {
				return c
			}
			return Not(c)
		}
		return Or(And(c, a), And(Not(c), b))
	}
	return mk("ite", a.w, 0, "", c, a, b)
}
func Eq(a, b *Term) *Term {
	if a == b {
		return True
	}
	if a.isC && b.isC {
		return Bool(a.c == b.c)
	}
	if a.w == 0 {
		return Or(And(a, b), And(Not(a), Not(b)))
	}
	if a.w != b.w {
		panic(fmt.Sprintf("Eq width mismatch %d %d", a.w, b.w))
	}
	// eq(ite(c,x,y), const) with const x,y
	if b.isC && a.op == "ite" && a.args[1].isC && a.args[2].isC {
		return Ite(a.args[0], Bool(a.args[1].c == b.c), Bool(a.args[2].c == b.c))
	}
	if a.isC && b.op == "ite" {
		return Eq(b, a)
	}
	if a.id > b.id {
		a, b = b, a
	}
	return mk("=", 0, 0, "", a, b)
}

func Bin(op string, a, b *Term) *Term {
	if a.w != b.w {
		panic(fmt.Sprintf("Bin %s width mismatch %d %d", op, a.w, b.w))
	}
	w := a.w
	m := mask(w)
	if a.isC && b.isC {
		x, y := a.c, b.c
		switch op {
		case "bvadd":
			return BV(w, x+y)
		case "bvsub":
			return BV(w, x-y)
		case "bvmul":
			return BV(w, x*y)
		case "bvand":
			return BV(w, x&y)
		case "bvor":
			return BV(w, x|y)
		case "bvxor":
			return BV(w, x^y)
		case "bvshl":
			if y >= uint64(w) {
				return BV(w, 0)
			}
			return BV(w, x<<y)
		case "bvlshr":
			if y >= uint64(w) {
				return BV(w, 0)
			}
			return BV(w, x>>y)
		case "bvashr":
			sx := sext64(x, w)
			if y >= uint64(w) {
				y = uint64(w - 1)
			}
			return BV(w, uint64(sx>>y))
		case "bvudiv":
			if y == 0 {
				return BV(w, m)
			}
			return BV(w, x/y)
		case "bvurem":
			if y == 0 {
				return BV(w, x)
			}
			return BV(w, x%y)
		case "bvsdiv":
			if y == 0 {
				break
			}
			sx, sy := sext64(x, w), sext64(y, w)
			if sy == -1 {
				return BV(w, uint64(-sx))
			}
			return BV(w, uint64(sx/sy))
		case "bvsrem":
			if y == 0 {
				break
			}
			sx, sy := sext64(x, w), sext64(y, w)
			if sy == -1 {
				return BV(w, 0)
			}
			return BV(w, uint64(sx%sy))
		}
	}
	switch op {
	case "bvadd":
		if a.isC && a.c == 0 {
			return b
		}
		if b.isC && b.c == 0 {
			return a
		}
		if a.isC { // const on the right
			a, b = b, a
		}
		// (x + c1) + c2
		if b.isC && a.op == "bvadd" && a.args[1].isC {
			return Bin("bvadd", a.args[0], BV(w, a.args[1].c+b.c))
		}
	case "bvsub":
		if b.isC {
			return Bin("bvadd", a, BV(w, -b.c))
		}
		if a == b {
			return BV(w, 0)
		}
	case "bvand":
		if a.isC && a.c == 0 || b.isC && b.c == 0 {
			return BV(w, 0)
		}
		if a.isC && a.c == m {
			return b
		}
		if b.isC && b.c == m {
			return a
		}
		if a == b {
			return a
		}
	case "bvor":
		if a.isC && a.c == 0 {
			return b
		}
		if b.isC && b.c == 0 {
			return a
		}
		if a == b {
			return a
		}
	case "bvxor":
		if a.isC && a.c == 0 {
			return b
		}
		if b.isC && b.c == 0 {
			return a
		}
	case "bvmul":
		if a.isC && a.c == 1 {
			return b
		}
		if b.isC && b.c == 1 {
			return a
		}
		if a.isC && a.c == 0 || b.isC && b.c == 0 {
			return BV(w, 0)
		}
	case "bvshl", "bvlshr", "bvashr":
		if b.isC && b.c == 0 {
			return a
		}
		if b.isC && b.c >= uint64(w) && op != "bvashr" {
			return BV(w, 0)
		}
	}
	return mk(op, w, 0, "", a, b)
}

func Cmp(op string, a, b *Term) *Term { // bvult bvule bvslt bvsle
	if a.w != b.w {
		panic("Cmp width mismatch " + op)
	}
	if a.isC && b.isC {
		switch op {
		case "bvult":
			return Bool(a.c < b.c)
		case "bvule":
			return Bool(a.c <= b.c)
		case "bvslt":
			return Bool(sext64(a.c, a.w) < sext64(b.c, b.w))
		case "bvsle":
			return Bool(sext64(a.c, a.w) <= sext64(b.c, b.w))
		}
	}
	if a == b {
		return Bool(op == "bvule" || op == "bvsle")
	}
	// range reasoning for zero-extended operands
	ra, oka := urange(a)
	rb, okb := urange(b)
	if oka && okb {
		// both non-negative as signed (when top bit clear) -> signed == unsigned compare
		switch op {
		case "bvult", "bvslt":
			if ra[1] < rb[0] {
				return True
			}
			if ra[0] >= rb[1] {
				return False
			}
		case "bvule", "bvsle":
			if ra[1] <= rb[0] {
				return True
			}
			if ra[0] > rb[1] {
				return False
			}
		}
	}
	return mk(op, 0, 0, "", a, b)
}

func Extract(hi, lo int, a *Term) *Term {
	w := hi - lo + 1
	if lo == 0 && w == a.w {
		return a
	}
	if a.isC {
		return BV(w, a.c>>uint(lo))
	}
	if a.op == "zext" && hi < a.args[0].w {
		return Extract(hi, lo, a.args[0])
	}
	if a.op == "zext" && lo >= a.args[0].w {
		return BV(w, 0)
	}
	if a.op == "sext" && hi < a.args[0].w {
		return Extract(hi, lo, a.args[0])
	}
	if a.op == "extract" {
		l0 := int(a.c & 0xff)
		return Extract(hi+l0, lo+l0, a.args[0])
	}
	return mk("extract", w, uint64(hi)<<8|uint64(lo), "", a)
}
func ZExt(a *Term, w int) *Term {
	if w == a.w {
		return a
	}
	if w < a.w {
		return Extract(w-1, 0, a)
	}
	if a.isC {
		return BV(w, a.c)
	}
	if a.op == "zext" {
		return ZExt(a.args[0], w)
	}
	return mk("zext", w, uint64(w-a.w), "", a)
}
func SExt(a *Term, w int) *Term {
	if w == a.w {
		return a
	}
	if w < a.w {
		return Extract(w-1, 0, a)
	}
	if a.isC {
		return BV(w, uint64(sext64(a.c, a.w)))
	}
	return mk("sext", w, uint64(w-a.w), "", a)
}
func BVNot(a *Term) *Term {
	if a.isC {
		return BV(a.w, ^a.c)
	}
	return mk("bvnot", a.w, 0, "", a)
}
func BVNeg(a *Term) *Term {
	if a.isC {
		return BV(a.w, -a.c)
	}
	return mk("bvneg", a.w, 0, "", a)
}

// ---- SMT-LIB printing with let-free DAG via define-fun of shared nodes ----

type Printer struct {
	defined map[int]bool
	out     *strings.Builder
}

func smtConst(w int, v uint64) string {
	if w%4 == 0 {
		return fmt.Sprintf("#x%0*x", w/4, v)
	}
	return fmt.Sprintf("#b%0*b", w, v)
}

// emit declarations/definitions for t and return its SMT name
func (p *Printer) ref(t *Term) string {
	switch t.op {
	case "const":
		return smtConst(t.w, t.c)
	case "fpconst":
		return fmt.Sprintf("((_ to_fp 11 53) #x%016x)", t.c)
	case "true", "false":
		return t.op
	case "var":
		if !p.defined[t.id] {
			p.defined[t.id] = true
			if t.w == 0 {
				fmt.Fprintf(p.out, "(declare-const %s Bool)\n", t.name)
			} else {
				fmt.Fprintf(p.out, "(declare-const %s (_ BitVec %d))\n", t.name, t.w)
			}
		}
		return t.name
	}
	name := fmt.Sprintf("t%d", t.id)
	if p.defined[t.id] {
		return name
	}
	as := make([]string, len(t.args))
	for i, a := range t.args {
		as[i] = p.ref(a)
	}
	var body string
	switch t.op {
	case "extract":
		body = fmt.Sprintf("((_ extract %d %d) %s)", t.c>>8, t.c&0xff, as[0])
	case "zext":
		body = fmt.Sprintf("((_ zero_extend %d) %s)", t.c, as[0])
	case "sext":
		body = fmt.Sprintf("((_ sign_extend %d) %s)", t.c, as[0])
	case "fp.fromu":
		body = fmt.Sprintf("((_ to_fp_unsigned 11 53) RNE %s)", as[0])
	case "fp.froms":
		body = fmt.Sprintf("((_ to_fp 11 53) RNE %s)", as[0])
	case "fp.to_ubv":
		body = fmt.Sprintf("((_ fp.to_ubv %d) RTZ %s)", t.w, as[0])
	case "fp.to_sbv":
		body = fmt.Sprintf("((_ fp.to_sbv %d) RTZ %s)", t.w, as[0])
	case "fp.ceil":
		body = fmt.Sprintf("(fp.roundToIntegral RTP %s)", as[0])
	case "fp.floor":
		body = fmt.Sprintf("(fp.roundToIntegral RTN %s)", as[0])
	case "fp.div", "fp.mul", "fp.add", "fp.sub":
		body = fmt.Sprintf("(%s RNE %s %s)", t.op, as[0], as[1])
	case "fp.neg":
		body = fmt.Sprintf("(fp.neg %s)", as[0])
	default:
		body = "(" + t.op + " " + strings.Join(as, " ") + ")"
	}
	p.defined[t.id] = true
	if t.fp {
		fmt.Fprintf(p.out, "(define-fun %s () (_ FloatingPoint 11 53) %s)\n", name, body)
	} else if t.w == 0 {
		fmt.Fprintf(p.out, "(define-fun %s () Bool %s)\n", name, body)
	} else {
		fmt.Fprintf(p.out, "(define-fun %s () (_ BitVec %d) %s)\n", name, t.w, body)
	}
	return name
}

// ---- evaluation under a model ----
func Eval(t *Term, m map[string]uint64, memo map[int]uint64) uint64 {
	if t.isC {
		return t.c
	}
	if v, ok := memo[t.id]; ok {
		return v
	}
	var r uint64
	a := func(i int) uint64 { return Eval(t.args[i], m, memo) }
	b2u := func(b bool) uint64 {
		if b {
			return 1
		}
		return 0
	}
	switch t.op {
	case "var":
		r = m[t.name] & mask(max(t.w, 1))
	case "not":
		r = b2u(a(0) == 0)
	case "and":
		r = 1
		for i := range t.args {
			if a(i) == 0 {
				r = 0
				break
			}
		}
	case "ite":
		if a(0) != 0 {
			r = a(1)
		} else {
			r = a(2)
		}
	case "=":
		r = b2u(a(0) == a(1))
	case "bvult", "bvule", "bvslt", "bvsle":
		r = Cmp(t.op, BV(t.args[0].w, a(0)), BV(t.args[0].w, a(1))).c
	case "extract":
		r = (a(0) >> (t.c & 0xff)) & mask(t.w)
	case "zext":
		r = a(0)
	case "sext":
		r = uint64(sext64(a(0), t.args[0].w)) & mask(t.w)
	case "fp.fromu":
		r = math.Float64bits(float64(a(0)))
	case "fp.froms":
		r = math.Float64bits(float64(sext64(a(0), t.args[0].w)))
	case "fp.to_ubv":
		r = uint64(math.Float64frombits(a(0))) & mask(t.w)
	case "fp.to_sbv":
		r = uint64(int64(math.Float64frombits(a(0)))) & mask(t.w)
	case "fp.ceil":
		r = math.Float64bits(math.Ceil(math.Float64frombits(a(0))))
	case "fp.floor":
		r = math.Float64bits(math.Floor(math.Float64frombits(a(0))))
	case "fp.neg":
		r = math.Float64bits(-math.Float64frombits(a(0)))
	case "fp.div", "fp.mul", "fp.add", "fp.sub":
		r = fpBinConst(t.op, a(0), a(1))
	case "fp.lt", "fp.leq", "fp.eq":
		r = fpCmpConst(t.op, a(0), a(1))
	case "bvnot":
		r = ^a(0) & mask(t.w)
	case "bvneg":
		r = -a(0) & mask(t.w)
	default:
		r = Bin(t.op, BV(t.w, a(0)), BV(t.w, a(1))).c
	}
	memo[t.id] = r
	return r
}

var _ = bits.Len

// urange returns [lo,hi] if t is known to lie in a range that is non-negative in signed view
func urange(t *Term) ([2]uint64, bool) {
	if t.isC {
		if t.w == 64 && t.c>>63 != 0 {
			return [2]uint64{}, false
		}
		if t.w < 64 && t.c>>(uint(t.w)-1) != 0 {
			return [2]uint64{}, false
		}
		return [2]uint64{t.c, t.c}, true
	}
	if t.op == "zext" {
		w := t.args[0].w
		return [2]uint64{0, mask(w)}, true
	}
	if t.op == "ite" {
		a, oka := urange(t.args[1])
		b, okb := urange(t.args[2])
		if oka && okb {
			return [2]uint64{min(a[0], b[0]), max(a[1], b[1])}, true
		}
	}
	if t.op == "bvand" && t.args[1].isC {
		if r, ok := urange(t.args[1]); ok {
			return [2]uint64{0, r[1]}, true
		}
	}
	if t.op == "bvand" && t.args[0].isC {
		if r, ok := urange(t.args[0]); ok {
			return [2]uint64{0, r[1]}, true
		}
	}
	return [2]uint64{}, false
}

// ---- Float64 (only what binCount-style code needs) ----
func FPConst(bits uint64) *Term { return mk("fpconst", 64, bits, "") }

func fpBinConst(op string, x, y uint64) uint64 {
	a, b := math.Float64frombits(x), math.Float64frombits(y)
	switch op {
	case "fp.div":
		return math.Float64bits(a / b)
	case "fp.mul":
		return math.Float64bits(a * b)
	case "fp.add":
		return math.Float64bits(a + b)
	case "fp.sub":
		return math.Float64bits(a - b)
	}
	panic(op)
}
func fpCmpConst(op string, x, y uint64) uint64 {
	a, b := math.Float64frombits(x), math.Float64frombits(y)
	var r bool
	switch op {
	case "fp.lt":
		r = a < b
	case "fp.leq":
		r = a <= b
	case "fp.eq":
		r = a == b
	}
	if r {
		return 1
	}
	return 0
}
func FPBin(op string, a, b *Term) *Term {
	if a.isC && b.isC {
		return FPConst(fpBinConst(op, a.c, b.c))
	}
	return mk(op, 64, 0, "", a, b)
}
func FPCmp(op string, a, b *Term) *Term {
	if a.isC && b.isC {
		return Bool(fpCmpConst(op, a.c, b.c) != 0)
	}
	return mk(op, 0, 0, "", a, b)
}
func FPUn(op string, a *Term) *Term {
	if a.isC {
		switch op {
		case "fp.ceil":
			return FPConst(math.Float64bits(math.Ceil(math.Float64frombits(a.c))))
		case "fp.floor":
			return FPConst(math.Float64bits(math.Floor(math.Float64frombits(a.c))))
		case "fp.neg":
			return FPConst(math.Float64bits(-math.Float64frombits(a.c)))
		}
	}
	return mk(op, 64, 0, "", a)
}
func FPFromInt(a *Term, signed bool) *Term {
	if a.isC {
		if signed {
			return FPConst(math.Float64bits(float64(sext64(a.c, a.w))))
		}
		return FPConst(math.Float64bits(float64(a.c)))
	}
	if signed {
		return mk("fp.froms", 64, 0, "", a)
	}
	return mk("fp.fromu", 64, 0, "", a)
}
func FPToInt(a *Term, w int, signed bool) *Term {
	if a.isC {
		f := math.Float64frombits(a.c)
		if signed {
			return BV(w, uint64(int64(f)))
		}
		return BV(w, uint64(f))
	}
	if signed {
		return mk("fp.to_sbv", w, 0, "", a)
	}
	return mk("fp.to_ubv", w, 0, "", a)
}
