package main

// A model of the struct -> JSON object mapping of encoding/json (field selection by struct tag,
// omitempty, "-" and untagged embedded structs), computed from go/types on the program's own
// struct types. It is what verifapi.JSONMembers returns in the executor; natively the same
// function goes through the real encoding/json (Marshal, then Unmarshal into a map), so the
// native replay of a counterexample is judged by the library itself.
//
// Covered: exported fields of basic type (string, bool, integers, floats), nested structs,
// pointers to those, untagged embedded structs, tag options name / omitempty / "-".
// Field types that marshal themselves (MarshalJSON / MarshalText) go through the converter
// the harness passes. Anything else (slices, maps, interfaces, the ",string" option, name
// clashes between embedded structs) ends the path as inconclusive.

import (
	"go/types"

	"golang.org/x/tools/go/ssa"
	"reflect"
	"strings"
)

var (
	tyString  = types.Typ[types.String]
	tyBool    = types.Typ[types.Bool]
	tyFloat64 = types.Typ[types.Float64]
	tyAnyMap  = types.NewMap(types.Typ[types.String], types.NewInterfaceType(nil, nil).Complete())
)

func (m *Machine) jsonMembers(v Value, conv Value) Value {
	i, ok := v.(Iface)
	if !ok || i.t == nil {
		panic(pathEnd{"engine: unsupported " + "JSONMembers of a nil interface"})
	}
	t, val := i.t, i.v
	for {
		p, isPtr := t.Underlying().(*types.Pointer)
		if !isPtr {
			break
		}
		if _, isNil := val.(NilPtr); isNil {
			panic(pathEnd{"engine: unsupported " + "JSONMembers of a nil pointer"})
		}
		t, val = p.Elem(), m.load(val)
	}
	st, ok := t.Underlying().(*types.Struct)
	if !ok {
		panic(pathEnd{"engine: unsupported " + "JSONMembers of a non-struct " + t.String()})
	}
	mo := &MapObj{kt: tyString, vt: tyAnyMap.Elem()}
	m.jsonStruct(mo, st, val.(Struct), conv)
	return mo
}

func hasMethod(t types.Type, name string) bool {
	ms := types.NewMethodSet(t)
	for i := 0; i < ms.Len(); i++ {
		if ms.At(i).Obj().Name() == name {
			return true
		}
	}
	return false
}

func (m *Machine) jsonStruct(mo *MapObj, st *types.Struct, sv Struct, conv Value) {
	for k := 0; k < st.NumFields(); k++ {
		f := st.Field(k)
		tag, tagged := reflect.StructTag(st.Tag(k)).Lookup("json")
		name, opts, _ := strings.Cut(tag, ",")
		if tagged && tag == "-" {
			continue
		}
		if f.Anonymous() && name == "" {
			ft := f.Type()
			fv := sv[k]
			if p, isPtr := ft.Underlying().(*types.Pointer); isPtr {
				if _, isNil := fv.(NilPtr); isNil {
					continue
				}
				ft, fv = p.Elem(), m.load(fv)
			}
			if est, isStruct := ft.Underlying().(*types.Struct); isStruct && !hasMethod(ft, "MarshalJSON") && !hasMethod(ft, "MarshalText") {
				m.jsonStruct(mo, est, fv.(Struct), conv)
				continue
			}
		}
		if !f.Exported() {
			continue
		}
		if name == "" {
			name = f.Name()
		}
		omitempty := false
		for _, o := range strings.Split(opts, ",") {
			switch o {
			case "":
			case "omitempty":
				omitempty = true
			default: // "string", and "omitzero" which this Go release ignores
				if o != "omitzero" {
					panic(pathEnd{"engine: unsupported " + "JSONMembers: tag option " + o})
				}
			}
		}
		jv, empty := m.jsonValue(f.Type(), sv[k], conv)
		if omitempty && empty != False {
			if empty == True || m.branch(empty) {
				continue
			}
		}
		for _, kk := range mo.keys {
			if *kk.(String).lit == name {
				panic(pathEnd{"engine: unsupported " + "JSONMembers: two fields named " + name})
			}
		}
		mo.keys = append(mo.keys, strLit(name))
		mo.vals = append(mo.vals, jv)
	}
}

// jsonValue returns the value encoding/json's decoder would put into a map[string]interface{}
// for this field after a Marshal/Unmarshal trip, and the condition under which omitempty
// drops the field.
func (m *Machine) jsonValue(t types.Type, v Value, conv Value) (Value, *Term) {
	if hasMethod(t, "MarshalJSON") || hasMethod(t, "MarshalText") {
		if _, none := conv.(NilPtr); none {
			panic(pathEnd{"engine: unsupported " + "JSONMembers: " + t.String() + " marshals itself and no converter was given"})
		}
		r := m.callValue(conv, &ssa.CallCommon{}, []Value{Iface{t: t, v: v}})
		_, empty := m.jsonValue(t.Underlying(), v, NilPtr{})
		return r, empty
	}
	switch u := t.Underlying().(type) {
	case *types.Basic:
		switch {
		case u.Kind() == types.String:
			s := v.(String)
			return Iface{t: tyString, v: s}, Eq(s.len, BV(64, 0))
		case u.Kind() == types.Bool:
			return Iface{t: tyBool, v: v}, Not(v.(*Term))
		case isFloat(t):
			return Iface{t: tyFloat64, v: v}, FPCmp("fp.eq", v.(*Term), FPConst(0))
		case width(t) > 0:
			x := v.(*Term)
			return Iface{t: tyFloat64, v: FPFromInt(x, isSigned(t))}, Eq(x, BV(width(t), 0))
		}
	case *types.Struct:
		mo := &MapObj{kt: tyString, vt: tyAnyMap.Elem()}
		m.jsonStruct(mo, u, v.(Struct), conv)
		return Iface{t: tyAnyMap, v: mo}, False
	case *types.Pointer:
		if _, isNil := v.(NilPtr); isNil {
			return Iface{}, True
		}
		r, _ := m.jsonValue(u.Elem(), m.load(v), conv)
		return r, False
	}
	panic(pathEnd{"engine: unsupported " + "JSONMembers: field of type " + t.String()})
	return nil, False
}
