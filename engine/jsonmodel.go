package main

// A model of encoding/json's mapping between Go values and JSON documents, computed from
// go/types on the program's own types. It stands in for the reflection code the executor cannot
// run, and is what verifapi.JSONMembers / verifapi.JSONTransfer do under the executor; natively
// the same functions go through the real encoding/json, so the native replay of a counterexample
// and the self-test corpus are judged by the library itself.
//
// Encoding (Marshal): exported struct fields selected and named by their tags (name, omitempty,
// "-"), untagged embedded structs flattened, nested structs, pointers, strings, booleans,
// integers and floats. Field types that marshal themselves (MarshalJSON / MarshalText) go
// through the converter the harness passes.
// Decoding (Unmarshal): into map[string]interface{} / interface{} (numbers become float64) and
// into structs (exact member-name match first, then case-insensitive; unknown members ignored;
// null leaves non-pointers alone; a member of the wrong JSON kind or an integer out of range is
// a type error that leaves the field alone and makes Unmarshal return an error after the rest
// was decoded; pointers are allocated on demand).
// Anything else (slices, maps as sources, the ",string" option, name clashes, self-unmarshalling
// targets, non-integral numbers into integers) ends the path as inconclusive.
// The JSON text itself (escaping, number syntax) is not modelled: strings are carried as they
// are, which is what the library does for valid UTF-8.

import (
	"go/types"
	"reflect"
	"strings"

	"golang.org/x/tools/go/ssa"
)

var (
	tyString  = types.Typ[types.String]
	tyBool    = types.Typ[types.Bool]
	tyFloat64 = types.Typ[types.Float64]
	tyAny     = types.NewInterfaceType(nil, nil).Complete()
	tyAnyMap  = types.NewMap(types.Typ[types.String], tyAny)
)

const (
	jNull = iota
	jStr
	jInt
	jFloat
	jBool
	jObj
)

type jdoc struct {
	kind   int
	s      String
	n      *Term // jInt: bit-vector; jFloat: float64; jBool: bool
	signed bool
	names  []string
	vals   []*jdoc
}

func jsonUnsupported(what string) { panic(pathEnd{"engine: unsupported by the JSON model: " + what}) }

func hasMethod(t types.Type, names ...string) bool {
	for _, tt := range []types.Type{t, types.NewPointer(t)} {
		ms := types.NewMethodSet(tt)
		for i := 0; i < ms.Len(); i++ {
			for _, n := range names {
				if ms.At(i).Obj().Name() == n {
					return true
				}
			}
		}
	}
	return false
}

// valueMethod: Marshal of a non-addressable value only sees value-receiver methods
func hasValueMethod(t types.Type, names ...string) bool {
	ms := types.NewMethodSet(t)
	for i := 0; i < ms.Len(); i++ {
		for _, n := range names {
			if ms.At(i).Obj().Name() == n {
				return true
			}
		}
	}
	return false
}

type jfield struct {
	name      string
	idx       []int // path through embedded structs
	typ       types.Type
	omitempty bool
}

// jsonFields lists the fields encoding/json sees in a struct type, in order.
func jsonFields(st *types.Struct, prefix []int, out *[]jfield) {
	for k := 0; k < st.NumFields(); k++ {
		f := st.Field(k)
		tag, tagged := reflect.StructTag(st.Tag(k)).Lookup("json")
		if tagged && tag == "-" {
			continue
		}
		name, opts, _ := strings.Cut(tag, ",")
		path := append(append([]int{}, prefix...), k)
		if f.Anonymous() && name == "" {
			ft := f.Type()
			if p, isPtr := ft.Underlying().(*types.Pointer); isPtr {
				ft = p.Elem()
			}
			if est, isStruct := ft.Underlying().(*types.Struct); isStruct && !hasMethod(ft, "MarshalJSON", "MarshalText", "UnmarshalJSON", "UnmarshalText") {
				if _, isPtr := f.Type().Underlying().(*types.Pointer); isPtr {
					jsonUnsupported("embedded pointer to struct " + f.Name())
				}
				jsonFields(est, path, out)
				continue
			}
		}
		if !f.Exported() {
			continue
		}
		if name == "" {
			name = f.Name()
		}
		jf := jfield{name: name, idx: path, typ: f.Type()}
		for _, o := range strings.Split(opts, ",") {
			switch o {
			case "", "omitzero": // omitzero is ignored by this Go release
			case "omitempty":
				jf.omitempty = true
			default:
				jsonUnsupported("tag option " + o + " on " + f.Name())
			}
		}
		for _, o := range *out {
			if o.name == jf.name {
				jsonUnsupported("two fields named " + jf.name)
			}
		}
		*out = append(*out, jf)
	}
}

func fieldValue(sv Struct, idx []int) Value {
	v := Value(sv)
	for _, i := range idx {
		v = v.(Struct)[i]
	}
	return v
}

func fieldSlot(sv Struct, idx []int) *Value {
	cur := sv
	for n, i := range idx {
		if n == len(idx)-1 {
			return &cur[i]
		}
		cur = cur[i].(Struct)
	}
	return nil
}

// ---------- encoding ----------

// jsonEncode returns the document for v and the condition under which omitempty drops it.
func (m *Machine) jsonEncode(t types.Type, v Value, conv Value) (*jdoc, *Term) {
	if _, isIface := t.Underlying().(*types.Interface); isIface {
		i := v.(Iface)
		if i.t == nil {
			return &jdoc{kind: jNull}, True
		}
		d, _ := m.jsonEncode(i.t, i.v, conv)
		return d, False
	}
	if hasValueMethod(t, "MarshalJSON", "MarshalText") {
		if _, none := conv.(NilPtr); none {
			jsonUnsupported(t.String() + " marshals itself and the harness gave no converter")
		}
		r := m.callValue(conv, &ssa.CallCommon{}, []Value{Iface{t: t, v: v}}).(Iface)
		d, _ := m.jsonEncode(tyAny, r, NilPtr{})
		_, empty := m.jsonEncodePlain(t.Underlying(), v, NilPtr{})
		return d, empty
	}
	return m.jsonEncodePlain(t, v, conv)
}

func (m *Machine) jsonEncodePlain(t types.Type, v Value, conv Value) (*jdoc, *Term) {
	switch u := t.Underlying().(type) {
	case *types.Basic:
		switch {
		case u.Kind() == types.String:
			s := v.(String)
			return &jdoc{kind: jStr, s: s}, Eq(s.len, BV(64, 0))
		case u.Kind() == types.Bool:
			return &jdoc{kind: jBool, n: v.(*Term)}, Not(v.(*Term))
		case isFloat(t):
			return &jdoc{kind: jFloat, n: v.(*Term)}, FPCmp("fp.eq", v.(*Term), FPConst(0))
		case width(t) > 0:
			x := v.(*Term)
			return &jdoc{kind: jInt, n: x, signed: isSigned(t)}, Eq(x, BV(width(t), 0))
		}
	case *types.Struct:
		var fs []jfield
		jsonFields(u, nil, &fs)
		d := &jdoc{kind: jObj}
		for _, f := range fs {
			fd, empty := m.jsonEncode(f.typ, fieldValue(v.(Struct), f.idx), conv)
			if f.omitempty && empty != False {
				if empty == True || m.branch(empty) {
					continue
				}
			}
			d.names = append(d.names, f.name)
			d.vals = append(d.vals, fd)
		}
		return d, False
	case *types.Pointer:
		if _, isNil := v.(NilPtr); isNil {
			return &jdoc{kind: jNull}, True
		}
		d, _ := m.jsonEncode(u.Elem(), m.load(v), conv)
		return d, False
	case *types.Map:
		if mo, ok := v.(*MapObj); ok && u.Key().Underlying() == tyString {
			d := &jdoc{kind: jObj}
			for i, k := range mo.keys {
				ks := k.(String)
				if ks.lit == nil {
					jsonUnsupported("map with a symbolic key")
				}
				vd, _ := m.jsonEncode(u.Elem(), mo.vals[i], conv)
				d.names = append(d.names, *ks.lit)
				d.vals = append(d.vals, vd)
			}
			return d, Bool(len(mo.keys) == 0)
		}
		if _, isNil := v.(NilPtr); isNil {
			return &jdoc{kind: jNull}, True
		}
	}
	jsonUnsupported("marshalling a " + t.String())
	return nil, nil
}

// ---------- decoding ----------

// jsonGeneric is what Unmarshal stores into an interface{}.
func (m *Machine) jsonGeneric(d *jdoc) Value {
	switch d.kind {
	case jNull:
		return Iface{}
	case jStr:
		return Iface{t: tyString, v: d.s}
	case jBool:
		return Iface{t: tyBool, v: d.n}
	case jFloat:
		return Iface{t: tyFloat64, v: d.n}
	case jInt:
		return Iface{t: tyFloat64, v: FPFromInt(d.n, d.signed)}
	}
	mo := &MapObj{kt: tyString, vt: tyAny}
	for i, n := range d.names {
		mo.keys = append(mo.keys, strLit(n))
		mo.vals = append(mo.vals, m.jsonGeneric(d.vals[i]))
	}
	return Iface{t: tyAnyMap, v: mo}
}

// jsonDecode stores d into the slot of type t; it returns false on a type error (the slot is
// then left as it was, like the library does).
func (m *Machine) jsonDecode(d *jdoc, t types.Type, slot *Value) bool {
	if hasMethod(t, "UnmarshalJSON", "UnmarshalText") {
		jsonUnsupported(t.String() + " unmarshals itself")
	}
	switch u := t.Underlying().(type) {
	case *types.Interface:
		if u.NumMethods() != 0 {
			jsonUnsupported("unmarshalling into a non-empty interface")
		}
		*slot = m.jsonGeneric(d)
		return true
	case *types.Pointer:
		if d.kind == jNull {
			*slot = NilPtr{}
			return true
		}
		if _, isNil := (*slot).(NilPtr); isNil {
			nv := m.zero(u.Elem())
			ok := m.jsonDecode(d, u.Elem(), &nv)
			if ok {
				*slot = SlotPtr{&nv}
			}
			return ok
		}
		return m.jsonDecode(d, u.Elem(), (*slot).(SlotPtr).p)
	case *types.Map:
		if d.kind == jNull {
			*slot = NilPtr{}
			return true
		}
		if d.kind != jObj {
			return false
		}
		if u.Key().Underlying() != tyString {
			jsonUnsupported("unmarshalling into " + t.String())
		}
		mo, ok := (*slot).(*MapObj)
		if !ok {
			mo = &MapObj{kt: u.Key(), vt: u.Elem()}
		}
		good := true
		for i, n := range d.names {
			ev := m.zero(u.Elem())
			if !m.jsonDecode(d.vals[i], u.Elem(), &ev) {
				good = false
				continue
			}
			if j := m.mapFind(mo, strLit(n)); j >= 0 {
				mo.vals[j] = ev
			} else {
				mo.keys = append(mo.keys, strLit(n))
				mo.vals = append(mo.vals, ev)
			}
		}
		*slot = mo
		return good
	}
	if d.kind == jNull {
		return true // null into a non-pointer: no effect, no error
	}
	switch u := t.Underlying().(type) {
	case *types.Basic:
		switch {
		case u.Kind() == types.String:
			if d.kind != jStr {
				return false
			}
			*slot = d.s
			return true
		case u.Kind() == types.Bool:
			if d.kind != jBool {
				return false
			}
			*slot = d.n
			return true
		case isFloat(t):
			switch d.kind {
			case jFloat:
				*slot = d.n
			case jInt:
				*slot = FPFromInt(d.n, d.signed)
			default:
				return false
			}
			if width(t) != 64 && !isFloat64(t) {
				jsonUnsupported("unmarshalling into float32")
			}
			return true
		case width(t) > 0:
			if d.kind == jFloat {
				jsonUnsupported("a float member unmarshalled into an integer")
			}
			if d.kind != jInt {
				return false
			}
			conv, fits := intFit(d.n, d.signed, width(t), isSigned(t))
			if fits != True {
				if fits == False || !m.branch(fits) {
					return false
				}
			}
			*slot = conv
			return true
		}
	case *types.Struct:
		if d.kind != jObj {
			return false
		}
		var fs []jfield
		jsonFields(u, nil, &fs)
		sv := (*slot).(Struct)
		good := true
		for i, n := range d.names {
			k := -1
			for j, f := range fs {
				if f.name == n {
					k = j
					break
				}
			}
			if k < 0 {
				for j, f := range fs {
					if strings.EqualFold(f.name, n) {
						k = j
						break
					}
				}
			}
			if k < 0 {
				continue
			}
			if !m.jsonDecode(d.vals[i], fs[k].typ, fieldSlot(sv, fs[k].idx)) {
				good = false
			}
		}
		return good
	}
	jsonUnsupported("unmarshalling into a " + t.String())
	return false
}

func isFloat64(t types.Type) bool {
	b, ok := t.Underlying().(*types.Basic)
	return ok && b.Kind() == types.Float64
}

// intFit converts integer x (signedness s) to width w / signedness ts and tells whether the
// value is representable there (all widths <= 64).
func intFit(x *Term, s bool, w int, ts bool) (*Term, *Term) {
	var conv *Term
	switch {
	case x.w == w:
		conv = x
	case x.w > w:
		conv = Extract(w-1, 0, x)
	case s:
		conv = SExt(x, w)
	default:
		conv = ZExt(x, w)
	}
	x64 := x
	if x.w < 64 {
		if s {
			x64 = SExt(x, 64)
		} else {
			x64 = ZExt(x, 64)
		}
	}
	srcU64 := !s && x.w == 64 // may exceed the int64 range
	if !ts && w == 64 {
		if s {
			return conv, Cmp("bvsle", BV(64, 0), x64)
		}
		return conv, True
	}
	var lo, hi uint64 // as int64 bit patterns
	if ts {
		lo = ^uint64(0) << uint(w-1)
		hi = 1<<uint(w-1) - 1
	} else {
		lo = 0
		hi = 1<<uint(w) - 1
	}
	if srcU64 {
		return conv, Cmp("bvule", x64, BV(64, hi))
	}
	return conv, And(Cmp("bvsle", BV(64, lo), x64), Cmp("bvsle", x64, BV(64, hi)))
}

// ---------- the two entry points ----------

func (m *Machine) jsonDocOf(v Value, conv Value) *jdoc {
	i, ok := v.(Iface)
	if !ok || i.t == nil {
		return &jdoc{kind: jNull}
	}
	d, _ := m.jsonEncode(i.t, i.v, conv)
	return d
}

func (m *Machine) jsonMembers(v Value, conv Value) Value {
	d := m.jsonDocOf(v, conv)
	if d.kind != jObj {
		jsonUnsupported("JSONMembers of a value that is not a JSON object")
	}
	return m.jsonGeneric(d).(Iface).v
}

// jsonTransfer: Unmarshal(Marshal(src), dst); the result is "no type error".
func (m *Machine) jsonTransfer(src, dst Value, conv Value) Value {
	d := m.jsonDocOf(src, conv)
	di, ok := dst.(Iface)
	if !ok || di.t == nil {
		return False
	}
	p, isPtr := di.t.Underlying().(*types.Pointer)
	if !isPtr {
		return False
	}
	sp, ok := di.v.(SlotPtr)
	if !ok {
		return False // nil pointer: InvalidUnmarshalError
	}
	return Bool(m.jsonDecode(d, p.Elem(), sp.p))
}
