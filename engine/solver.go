package main

import (
	"bufio"
	"fmt"
	"io"
	"os"
	"os/exec"
	"strconv"
	"strings"
	"sync"
	"time"
)

type solverDied struct{ err string }

var (
	solverStatsMu sync.Mutex
	solverQueries int64
	solverUnknown int64
	solverTime    time.Duration
)

type Solver struct {
	sess     strings.Builder
	preamble string
	dead     bool
	cmd      *exec.Cmd
	in       io.WriteCloser
	out      *bufio.Reader
	pr       *Printer
	base     map[int]bool
	Queries  int
	Time     time.Duration
	Unknown  int
	log      io.Writer
}

func NewSolver(timeoutMs int) *Solver {
	bin := os.Getenv("VERIF_SOLVER")
	if bin == "" {
		bin = "z3-new"
	}
	cmd := exec.Command(bin, "-in", fmt.Sprintf("-t:%d", timeoutMs))
	in, _ := cmd.StdinPipe()
	out, _ := cmd.StdoutPipe()
	cmd.Stderr = cmd.Stdout
	if err := cmd.Start(); err != nil {
		panic(err)
	}
	s := &Solver{cmd: cmd, in: in, out: bufio.NewReader(out)}
	s.pr = &Printer{defined: map[int]bool{}, out: &strings.Builder{}}
	s.send("(set-option :print-success false)\n")
	return s
}

var dumpUnknownDir = os.Getenv("VERIF_DUMP_UNKNOWN")
var dumpSeq int64

func (s *Solver) send(x string) {
	if s.log != nil {
		io.WriteString(s.log, x)
	}
	if dumpUnknownDir != "" {
		s.sess.WriteString(x)
	}
	io.WriteString(s.in, x)
}

func (s *Solver) flushDefs() {
	if s.pr.out.Len() > 0 {
		s.send(s.pr.out.String())
		s.pr.out.Reset()
	}
}

func (s *Solver) Push() {
	if dumpUnknownDir != "" {
		if s.preamble == "" {
			s.preamble = s.sess.String()
		}
		s.sess.Reset()
		s.sess.WriteString(s.preamble)
	}
	s.send("(push 1)\n")
	s.base = map[int]bool{}
	for k := range s.pr.defined {
		s.base[k] = true
	}
}
func (s *Solver) Pop() {
	s.send("(pop 1)\n")
	s.pr.defined = s.base
}

func (s *Solver) Assert(t *Term) {
	if t == True {
		return
	}
	n := s.pr.ref(t)
	s.flushDefs()
	s.send("(assert " + n + ")\n")
}

func (s *Solver) readLine() string {
	l, err := s.out.ReadString('\n')
	if err != nil {
		s.dead = true
		panic(solverDied{err.Error()})
	}
	return strings.TrimSpace(l)
}

// Check returns "sat", "unsat" or "unknown"
func (s *Solver) Check(extra ...*Term) string {
	names := make([]string, 0, len(extra))
	for _, t := range extra {
		if t == True {
			continue
		}
		names = append(names, s.pr.ref(t))
	}
	s.flushDefs()
	t0 := time.Now()
	if len(names) == 0 {
		s.send("(check-sat)\n")
	} else {
		s.send("(check-sat-assuming (" + strings.Join(names, " ") + "))\n")
	}
	r := s.readLine()
	s.Queries++
	dt := time.Since(t0)
	s.Time += dt
	solverStatsMu.Lock()
	solverQueries++
	solverTime += dt
	solverStatsMu.Unlock()
	if strings.HasPrefix(r, "(error") {
		// any error line is inconclusive, never success
		s.Unknown++
		return "unknown"
	}
	if r != "sat" && r != "unsat" {
		s.Unknown++
		if dumpUnknownDir != "" {
			solverStatsMu.Lock()
			dumpSeq++
			n := dumpSeq
			solverStatsMu.Unlock()
			os.WriteFile(fmt.Sprintf("%s/unknown-%d.smt2", dumpUnknownDir, n), []byte(s.sess.String()), 0644)
		}
		return "unknown"
	}
	return r
}

func (s *Solver) Model(vars []*Term) map[string]uint64 {
	m := map[string]uint64{}
	if len(vars) == 0 {
		return m
	}
	var ns []string
	for _, v := range vars {
		ns = append(ns, s.pr.ref(v))
	}
	s.flushDefs()
	s.send("(get-value (" + strings.Join(ns, " ") + "))\n")
	// read balanced s-expression
	depth := 0
	var sb strings.Builder
	for {
		l := s.readLine()
		sb.WriteString(l)
		sb.WriteString(" ")
		depth += strings.Count(l, "(") - strings.Count(l, ")")
		if depth <= 0 {
			break
		}
	}
	txt := sb.String()
	if strings.HasPrefix(txt, "(error") {
		panic("solver error: " + txt)
	}
	for _, v := range vars {
		i := strings.Index(txt, "("+v.name+" ")
		if i < 0 {
			continue
		}
		rest := txt[i+len(v.name)+2:]
		j := strings.Index(rest, ")")
		val := strings.TrimSpace(rest[:j])
		switch {
		case val == "true":
			m[v.name] = 1
		case val == "false":
			m[v.name] = 0
		case strings.HasPrefix(val, "#x"):
			u, _ := strconv.ParseUint(val[2:], 16, 64)
			m[v.name] = u
		case strings.HasPrefix(val, "#b"):
			u, _ := strconv.ParseUint(val[2:], 2, 64)
			m[v.name] = u
		}
	}
	return m
}

func (s *Solver) Close() {
	s.in.Close()
	done := make(chan struct{})
	go func() { s.cmd.Wait(); close(done) }()
	select {
	case <-done:
	case <-time.After(2 * time.Second):
		s.cmd.Process.Kill()
	}
}

// ---- fallback: one-shot query on another back end ----
// Linear length/offset arithmetic over 64-bit vectors (C09-style) can stall z3's incremental
// bit-blaster for tens of seconds while cvc5's integer encoding of the same bit-vector
// semantics (--solve-bv-as-int=sum) answers in under a second; bitwise-heavy queries behave
// the other way round.  So a query the primary solver gives up on is re-asked, standalone,
// of cvc5-int and then of a fresh z3 with the full timeout; only if all give up is the
// obligation reported as not discharged.
var (
	fallbackQueries int64
	fallbackSolved  int64
)

func parseModel(txt string, vars []*Term) map[string]uint64 {
	m := map[string]uint64{}
	for _, v := range vars {
		i := strings.Index(txt, "("+v.name+" ")
		if i < 0 {
			continue
		}
		rest := txt[i+len(v.name)+2:]
		j := strings.Index(rest, ")")
		if j < 0 {
			continue
		}
		val := strings.TrimSpace(rest[:j])
		switch {
		case val == "true":
			m[v.name] = 1
		case val == "false":
			m[v.name] = 0
		case strings.HasPrefix(val, "#x"):
			u, _ := strconv.ParseUint(val[2:], 16, 64)
			m[v.name] = u
		case strings.HasPrefix(val, "#b"):
			u, _ := strconv.ParseUint(val[2:], 2, 64)
			m[v.name] = u
		}
	}
	return m
}

func fallbackSolve(pc []*Term, cond *Term, vars []*Term, timeoutMs int) (string, map[string]uint64) {
	var sb strings.Builder
	pr := &Printer{defined: map[int]bool{}, out: &sb}
	var names []string
	for _, p := range pc {
		names = append(names, pr.ref(p))
	}
	if cond != nil && cond != True {
		names = append(names, pr.ref(cond))
	}
	for _, n := range names {
		sb.WriteString("(assert " + n + ")\n")
	}
	sb.WriteString("(check-sat)\n")
	var vn []string
	for _, v := range vars {
		if pr.defined[v.id] {
			vn = append(vn, v.name)
		}
	}
	script := sb.String()
	getv := ""
	if len(vn) > 0 {
		getv = "(get-value (" + strings.Join(vn, " ") + "))\n"
	}
	solverStatsMu.Lock()
	fallbackQueries++
	solverStatsMu.Unlock()
	type be struct {
		bin  string
		args []string
		pre  string
	}
	backends := []be{
		{"cvc5", []string{"--lang=smt2", "--produce-models", "--solve-bv-as-int=sum", fmt.Sprintf("--tlimit=%d", timeoutMs)}, "(set-logic ALL)\n"},
		{"z3-new", []string{"-in", fmt.Sprintf("-T:%d", timeoutMs/1000+1)}, ""},
	}
	if strings.Contains(script, "FloatingPoint") {
		backends = backends[1:]
	}
	for _, b := range backends {
		cmd := exec.Command(b.bin, b.args...)
		cmd.Stdin = strings.NewReader(b.pre + script + getv)
		t0 := time.Now()
		out, _ := cmd.CombinedOutput()
		solverStatsMu.Lock()
		solverQueries++
		solverTime += time.Since(t0)
		solverStatsMu.Unlock()
		txt := string(out)
		first := strings.TrimSpace(strings.SplitN(txt, "\n", 2)[0])
		if first == "unsat" {
			solverStatsMu.Lock()
			fallbackSolved++
			solverStatsMu.Unlock()
			return "unsat", nil
		}
		if first == "sat" && !strings.Contains(txt, "(error") {
			solverStatsMu.Lock()
			fallbackSolved++
			solverStatsMu.Unlock()
			return "sat", parseModel(txt, vars)
		}
	}
	solverStatsMu.Lock()
	solverUnknown++
	solverStatsMu.Unlock()
	return "unknown", nil
}
