// Package verifapi is the harness API of the gosmt engine (see /verif/DESIGN.md §2.2).
//
// It is never part of /repo: the engine injects it as the virtual directory
// /repo/internal/verifapi through a go/packages overlay, and native replays inject it
// with `go test -overlay`.
//
// Under the symbolic executor every function here is intercepted by name and its body is
// ignored.  The bodies below are what runs in a *native replay*: the nondeterministic
// inputs are read from the counterexample file named by $VERIF_REPLAY (a JSON object
// {"inputs": {"<name>#<k>": <uint64>, ...}, "params": {...}}), Assume stops the run as
// "diverged" and Assert stops it as "assert failed".
package verifapi

import (
	"encoding/json"
	"fmt"
	"os"
	"strconv"
	"strings"
	"sync"
	"time"
)

type AssertFailed struct{ Label string }
type AssumeFailed struct{}

var (
	mu     sync.Mutex
	loaded bool
	inputs = map[string]uint64{}
	params = map[string]int{}
	counts = map[string]int{}
	// Covered lists the Cover labels reached natively (for the self-test).
	Covered = map[string]bool{}
)

func load() {
	if loaded {
		return
	}
	loaded = true
	p := os.Getenv("VERIF_REPLAY")
	if p == "" {
		return
	}
	b, err := os.ReadFile(p)
	if err != nil {
		panic("verifapi: cannot read replay file: " + err.Error())
	}
	var f struct {
		Inputs map[string]uint64 `json:"inputs"`
		Params map[string]int    `json:"params"`
	}
	if err := json.Unmarshal(b, &f); err != nil {
		panic("verifapi: bad replay file: " + err.Error())
	}
	if f.Inputs != nil {
		inputs = f.Inputs
	}
	if f.Params != nil {
		params = f.Params
	}
}

// Reset forgets the occurrence counters (used by the self-test between runs).
func Reset() {
	mu.Lock()
	defer mu.Unlock()
	counts = map[string]int{}
}

func next(name string) uint64 {
	mu.Lock()
	defer mu.Unlock()
	load()
	k := counts[name]
	counts[name] = k + 1
	return inputs[fmt.Sprintf("%s#%d", name, k)]
}

func Int(name string) int       { return int(next(name)) }
func Int64(name string) int64   { return int64(next(name)) }
func Uint(name string) uint     { return uint(next(name)) }
func Uint64(name string) uint64 { return next(name) }
func Uint32(name string) uint32 { return uint32(next(name)) }
func Uint16(name string) uint16 { return uint16(next(name)) }
func Uint8(name string) uint8   { return uint8(next(name)) }
func Bool(name string) bool     { return next(name) != 0 }

// Choice returns a value in [0,k).
func Choice(name string, k int) int {
	v := int(next(name))
	if v < 0 || v >= k {
		panic(AssumeFailed{})
	}
	return v
}

// Bytes returns a slice of symbolic length <= max with symbolic content.
func Bytes(name string, max int) []byte {
	mu.Lock()
	load()
	k := counts[name+".len"]
	mu.Unlock()
	b := make([]byte, max)
	for i := range b {
		b[i] = byte(inputs[fmt.Sprintf("%s#%d[%d]", name, k, i)])
	}
	n := int(next(name + ".len"))
	if n < 0 || n > max {
		panic(AssumeFailed{})
	}
	return b[:n]
}

func String(name string, max int) string { return string(Bytes(name, max)) }

// BigBytes returns a buffer of exactly n bytes with unconstrained symbolic content; n may be
// symbolic (the engine represents the content as an uninterpreted base, so the size is free).
// Natively the content is a fixed pattern derived from the position.
func BigBytes(name string, n int) []byte {
	mu.Lock()
	load()
	k := counts[name+".big"]
	counts[name+".big"] = k + 1
	pre := fmt.Sprintf("%s#%d[", name, k)
	b := make([]byte, n)
	for i := range b {
		b[i] = byte(i*7 + 3)
	}
	for key, v := range inputs {
		if strings.HasPrefix(key, pre) && strings.HasSuffix(key, "]") {
			if i, err := strconv.Atoi(key[len(pre) : len(key)-1]); err == nil && i >= 0 && i < n {
				b[i] = byte(v)
			}
		}
	}
	mu.Unlock()
	return b
}

// Param returns a bound configured per tier in /verif/checks/<id>.json (def when unset).
func Param(name string, def int) int {
	mu.Lock()
	defer mu.Unlock()
	load()
	if v, ok := params[name]; ok {
		return v
	}
	return def
}

func Assume(c bool) {
	if !c {
		panic(AssumeFailed{})
	}
}

func Assert(c bool, label string) {
	if !c {
		panic(AssertFailed{label})
	}
}

func Cover(label string) {
	mu.Lock()
	Covered[label] = true
	mu.Unlock()
}

// Concrete tells the engine to case-split on the feasible values of x.
func Concrete(x int) int { return x }

// And / Or / Implies build one condition without forking per operand.
func And(a, b bool) bool     { return a && b }
func Or(a, b bool) bool      { return a || b }
func Implies(a, b bool) bool { return !a || b }

// MaxAlloc is the largest make([]byte, n) since ResetAlloc (engine only; 0 natively).
func MaxAlloc() int { return 0 }
func ResetAlloc()   {}

// Daemon marks the calling goroutine as allowed to block forever.
func Daemon() {}

// Quiesce blocks until no other goroutine can move.  Natively: a grace period.
func Quiesce() { time.Sleep(300 * time.Millisecond) }

// LiveGoroutines is the number of goroutines (other than the caller) that have not returned
// and whose function name contains substr (engine only; 0 natively).
func LiveGoroutines(substr string) int { return 0 }

// Native reports whether the harness runs natively (replay) rather than symbolically.
func Native() bool { return true }

// ExpectPanic runs f and reports whether it panicked (a panic inside is not a violation).
func ExpectPanic(f func()) (panicked bool) {
	defer func() {
		if r := recover(); r != nil {
			switch r.(type) {
			case AssertFailed, AssumeFailed:
				panic(r)
			}
			panicked = true
		}
	}()
	f()
	return false
}

// Count / Counted: event counters for sinks.
var counters = map[string]int{}

func Count(label string) {
	mu.Lock()
	counters[label]++
	mu.Unlock()
}
func Counted(label string) int {
	mu.Lock()
	defer mu.Unlock()
	return counters[label]
}

// Yield is a scheduling point with no effect (concurrent harnesses).
func Yield() {}

// JSONMembers is the JSON object encoding/json produces for the struct v, as the map
// encoding/json's decoder yields for it: member names, omitted members and member values
// after one Marshal/Unmarshal trip.  Natively it is exactly that trip through the real
// library.  Under the executor it is computed from v's struct tags (engine/jsonmodel.go);
// conv converts fields whose type marshals itself (MarshalJSON/MarshalText).
func JSONMembers(v interface{}, conv func(interface{}) interface{}) map[string]interface{} {
	b, err := json.Marshal(v)
	if err != nil {
		panic(err)
	}
	var m map[string]interface{}
	if err := json.Unmarshal(b, &m); err != nil {
		panic(err)
	}
	return m
}

// JSONTransfer is json.Unmarshal(json.Marshal(src), dst): natively exactly that, under the
// executor the model in engine/jsonmodel.go.  It reports whether Unmarshal returned no error.
func JSONTransfer(src, dst interface{}, conv func(interface{}) interface{}) bool {
	b, err := json.Marshal(src)
	if err != nil {
		panic(err)
	}
	return json.Unmarshal(b, dst) == nil
}

// ExpectExit runs f and reports whether it ended the process (log.Fatal, os.Exit) - under the
// executor only; a Go panic inside f is a violation as everywhere else.  Natively f just runs.
func ExpectExit(f func()) (exited bool) {
	f()
	return false
}
